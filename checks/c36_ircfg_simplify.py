"""C36 - IR graph simplification preserves observable behaviour.

Engine E2 over the irgen lattice of complete functions: every CFG shape with <= N blocks in which some exit
block exists; every exit block ends with  r = r + a ; sp = sp + 4 ; IRDst = END  (add r, a ; ret): the leaf
writes both ABI output registers, as the IRAOutRegs pattern of test/analysis/unssa.py needs; bodies over an
alphabet with registers, stack memory reads/writes, a store through a register pointer, parallel swap, an
uninterpreted call (call_func_ret), stack pointer arithmetic, and (ALPHA_WIDTH) narrow stores into the upper bytes /
upper word of a 32-bit stack slot whose content is known, with wide and narrow reads of that slot.  Three templates
with longer blocks add the dummy-phi situation: a register defined by an operation that reads memory, saved in another
register, the cell stored to, the register restored, in one arm of a triangle / diamond or in a loop body; and
5-block templates with a three-predecessor join reached by one definition through two edges, one of them statically dead.  The thorough tier adds a fixed list of x86_32
functions assembled with miasm's own assembler and lifted with the real x86 lifter (mc/x86funcs.py).

Pipelines (each on a fresh copy of the graph):
  common       IRCFGSimplifierCommon(lifter)(ircfg, head)
  ssa          IRCFGSimplifierSSA(lifter)(ircfg, head) with the stock lifter, whose get_out_regs names the
               registers (r, sp): the way example/disasm/full.py and example/ida/graph_ir.py drive it
  ssa-outregs  IRCFGSimplifierSSA(lifter)(ircfg, head) with a lifter subclass whose get_out_regs reports the SSA
               versions of the output registers written in the leaf: the IRAOutRegs pattern of test/analysis/unssa.py

Oracle = the property: mc/irinterp on the original and on the simplified graph, from every state of a small
lattice, must give the same sequence of (address, size, value) memory writes, the same sequence of call events,
the same exit, and the same values of r and sp at that exit; in the simplified graph a register is read through
the variable that stands for it (the last assigned variable v with lifter.ssa_var[v] == register, the register
itself when there is none).  Writes to other registers are not compared (dead code removal drops them).
"""
import itertools

from mc import irgen, irinterp, refsem
from mc.runner import violation

PROP = "C36"
LEVEL = "exploration"
ENGINE = "enum"
RULE = ("complete product: CFG shapes (<= N blocks, every block reachable, at least one exit block) x bodies (<= L "
        "assignments per block from an ordered alphabet) x branch conditions, each graph through the listed pipelines and run "
        "from every state of the register x memory lattice (only registers/memory the original graph reads are varied); "
        "plus (thorough) a fixed list of assembled x86_32 functions x argument lattice; distinct = distinct graph; "
        "non-trivial = the pipeline changed the graph and the original reaches an exit within the fuel bound from some state")
LEVEL_TEXT = ("Bounded-exhaustive enumeration of small complete functions through the real simplification pipelines; "
              "behaviour decided by an independent reference interpreter over a complete small state lattice that contains "
              "aliasing states (the register pointer equals / overlaps the stack cell, the stack cell wraps around the address "
              "space). The passes are shape-generic (dead code, block merging, jump threading, expression propagation, phi "
              "clean-up, out-of-SSA): their mistakes show on 2-4 block graphs with joins, loops and redefinitions.")
LEVEL_NOTE = ("Trusted: mc/irinterp.py + mc/refsem.py, mc/irgen.py. Runs exceeding the fuel bound in the original graph are "
              "skipped and counted. Only the calling convention's output registers are compared at the exit.")
TECHNIQUE = "bounded-exhaustive enumeration of IR graphs through the simplifier; reference-interpreter differential"
ASSUMPTIONS = ["every exit block writes the ABI output registers (r = r + a ; sp = sp + 4) before IRDst = END: the graph is a complete function",
               "call_func_ret is an uninterpreted event whose result is a fixed function of its evaluated arguments",
               "values of registers read before any write are the inputs of both graphs"]

ALPHA_FULL = ["a=b", "a=a+1", "swap", "r=a", "b=1", "@[sp+4]=a", "a=@[sp+4]", "@[a]=b", "r=call(a)", "sp=sp-4", "sp=sp+4"]
FUEL = 10
PIPELINES = ("common", "ssa", "ssa-outregs")

VALS = [0, 1, 2, 0xFFFFFFFF]
SPS = [0x1000, 0xFFFFFFFC]            # second value: @[sp+4] is @[0], which a in {0,1,2,0xFFFFFFFF} equals / overlaps
MEMS = ["pattern", "zero"]            # initial content of the bytes at sp+4 .. sp+11: address pattern / zero


# ------------------------------------------------------------------ graphs

def add_epilogue(ircfg, loc_db, epilogue):
    """Every leaf gets the AssignBlocks of @epilogue (list of dicts) just before its IRDst assignment."""
    from miasm.ir.ir import IRBlock, AssignBlock
    for lk in list(ircfg.blocks):
        if ircfg.successors(lk):
            continue
        blk = ircfg.blocks[lk]
        abs_ = list(blk)
        pos = len(abs_)
        for i, ab in enumerate(abs_):
            if ircfg.IRDst in ab:
                pos = i
        abs_[pos:pos] = [AssignBlock(dict(d), abs_[-1].instr) for d in epilogue]
        ircfg.blocks[lk] = IRBlock(loc_db, lk, abs_)


EPILOGUES = ("add-ret", "ret")


def fake_epilogue(A, epi="add-ret"):
    """"add-ret": add r, a ; ret : both ABI output registers are written (not by an identity) in the exit block.
    "ret": only the stack pointer is written there, r holds what earlier blocks left in it (as in lifted code); this
    form does not fit the IRAOutRegs pattern and is only run through the pipelines driven with the stock lifter."""
    import miasm.expression.expression as m
    ret = {A.sp: A.sp + m.ExprInt(4, 32)}
    if epi == "ret":
        return [ret]
    return [{A.r: A.r + A.a}, ret]


def build_graph(n, shape_idx, body_idx, cond_idx, alphabet, conds, epi="add-ret", shape=None):
    shape = tuple(tuple(x) for x in shape) if shape is not None else irgen.shapes(n)[shape_idx]
    g = irgen.build(shape, body_idx, cond_idx, alphabet, conds)
    add_epilogue(g.ircfg, g.loc_db, fake_epilogue(g.arch, epi))
    return g


CPU_LIMIT = 10           # seconds of CPU time for one analysis of one graph (normal: < 0.1 s)
MAX_HANGS_PER_SHARD = 2  # after that many non-terminating analyses a shard stops and counts what it did not run


class PipelineTimeout(Exception):
    pass


def guarded(fn, cpu_seconds=None):
    """Runs fn(); a pipeline still running after @cpu_seconds of CPU time of this process (normal: < 0.1 s) is
    reported as not terminating (the timer counts consumed CPU time, not wall-clock time)."""
    import signal

    def onalarm(signum, frame):
        raise PipelineTimeout()
    old = signal.signal(signal.SIGVTALRM, onalarm)
    signal.setitimer(signal.ITIMER_VIRTUAL, cpu_seconds or CPU_LIMIT)
    try:
        return fn()
    finally:
        signal.setitimer(signal.ITIMER_VIRTUAL, 0)
        signal.signal(signal.SIGVTALRM, old)


def out_regs_lifter(lifter_cls, *args):
    """Subclass reporting, for a leaf, the SSA versions of the output registers it writes (IRAOutRegs pattern);
    registers without a version (graph not in SSA form) are reported as themselves."""
    class OutRegs(lifter_cls):
        def get_out_regs(self, block):
            regs_todo = super(OutRegs, self).get_out_regs(block)
            ssa_var = getattr(self, "ssa_var", None) or {}
            out = {}
            for assignblk in block:
                for dst in assignblk:
                    reg = ssa_var.get(dst, None)
                    if reg is None:
                        continue
                    if reg in regs_todo:
                        out[reg] = dst
            return set(out.values())
    return OutRegs(*args)


def copy_ircfg(ircfg):
    from miasm.ir.ir import IRCFG
    out = IRCFG(ircfg.IRDst, ircfg.loc_db)
    for blk in ircfg.blocks.values():
        out.add_irblock(blk)
    return out


def run_pipeline(pipeline, lifter, ircfg, head):
    """Returns (simplified ircfg, dict variable -> register it stands for)."""
    from miasm.analysis.simplifier import IRCFGSimplifierCommon, IRCFGSimplifierSSA
    if pipeline == "common":
        simp = IRCFGSimplifierCommon(lifter)
        simp(ircfg, head)
        return ircfg, {}
    simp = IRCFGSimplifierSSA(lifter)
    out = simp(ircfg, head)
    return out, dict(lifter.ssa_var)


def graph_text(ircfg):
    out = []
    for lk in sorted(ircfg.blocks, key=lambda k: k.key):
        parts = []
        for ab in ircfg.blocks[lk]:
            parts.append(", ".join("%s = %s" % (d, s) for d, s in sorted(ab.items(), key=lambda kv: str(kv[0]))))
        out.append("%s: %s" % (ircfg.loc_db.pretty_str(lk), " ; ".join(parts)))
    return " | ".join(out)


def ids_read(ircfg):
    ids = set()
    mem = False
    for blk in ircfg.blocks.values():
        for ab in blk:
            for dst, src in ab.items():
                for x in src.get_r(mem_read=True):
                    if x.is_id():
                        ids.add(x)
                    elif x.is_mem():
                        mem = True
                if dst.is_mem():
                    mem = True
                    for x in dst.ptr.get_r(mem_read=True):
                        if x.is_id():
                            ids.add(x)
    return ids, mem


# ------------------------------------------------------------------ differential

def cell(sp, kind):
    if kind == "pattern":
        return {}
    return dict(((sp + 4 + i) & 0xFFFFFFFF, 0) for i in range(8))


def states(g):
    A = g.arch
    ids, mem = ids_read(g.ircfg)
    av = VALS if A.a in ids else [1]
    bv = VALS if A.b in ids else [2]
    spv = SPS if mem else [0x1000]
    mv = MEMS if mem else ["pattern"]
    zv = [0, 1] if A.zf in ids else [0]
    for a, b, sp, mk, zf in itertools.product(av, bv, spv, mv, zv):
        regs = {A.a: a, A.b: b, A.c: 3, A.r: 7, A.sp: sp, A.zf: zf, A.END: 0xDEAD0000, A.pc: 0}
        yield regs, cell(sp, mk), "{a=%#x,b=%#x,sp=%#x,mem[sp+4..]=%s%s}" % (a, b, sp, mk, ",zf=1" if zf else "")


def holder_of(reg, res, var2orig):
    holder, best = reg, res.assign_seq.get(reg, 0)
    for d, sq in res.assign_seq.items():
        if sq > best and var2orig.get(d) == reg:
            holder, best = d, sq
    return holder


def differential(desc, case, pipeline, kind, it0, it1, g0_ircfg, head0, out, head1, var2orig, state_iter, out_regs, fuel, info,
                 irdst=None):
    """Runs both graphs from every state; returns the first violation (list of <= 1)."""
    for regs, mem, stxt in state_iter:
        info["states"] += 1
        r0 = it0.run(g0_ircfg, head0, regs, mem, fuel=fuel, irdst=irdst)
        if r0.fuel_out or r0.undefined:
            info["skipped_states"] += 1
            continue
        info["compared"] += 1
        if r0.writes:
            info["runs_with_writes"] += 1
        if r0.calls:
            info["runs_with_calls"] += 1
        try:
            r1 = it1.run(out, head1, regs, mem, fuel=fuel * 4 + 8, irdst=irdst)
        except KeyError as e:
            return [violation("%s:reads-undefined-variable:%s" % (pipeline, kind),
                              "%s: simplified graph reads %s which nothing defines (state %s); simplified: %s" % (desc, e, stxt, graph_text(out)), case)]
        except refsem.Unsupported as e:
            return [violation("%s:unexecutable-expression:%s" % (pipeline, kind),
                              "%s: simplified graph contains an expression without meaning (%s); simplified: %s" % (desc, e, graph_text(out)), case)]
        if r1.fuel_out:
            return [violation("%s:does-not-terminate:%s" % (pipeline, kind),
                              "%s: original exits after %d blocks, simplified graph still running after %d (state %s); simplified: %s" % (
                                  desc, len(r0.path), fuel * 4 + 8, stxt, graph_text(out)), case)]
        if r1.undefined:
            return [violation("%s:undefined-operation:%s" % (pipeline, kind),
                              "%s: simplified graph divides by zero where the original does not (state %s)" % (desc, stxt), case)]
        if r1.exit != r0.exit:
            return [violation("%s:exit-differs:%s" % (pipeline, kind),
                              "%s: exit %r in the original, %r simplified (state %s); simplified: %s" % (desc, r0.exit, r1.exit, stxt, graph_text(out)), case)]
        if r1.writes != r0.writes:
            return [violation("%s:memory-writes-differ:%s:%s" % (pipeline, _wclass(r0.writes, r1.writes, mem, it0.default_mem), kind),
                              "%s: memory writes %s in the original, %s simplified (state %s); simplified: %s" % (
                                  desc, _w(r0.writes), _w(r1.writes), stxt, graph_text(out)), case)]
        if r1.calls != r0.calls:
            return [violation("%s:call-events-differ:%s" % (pipeline, kind),
                              "%s: calls %r in the original, %r simplified (state %s); simplified: %s" % (desc, r0.calls, r1.calls, stxt, graph_text(out)), case)]
        for reg in out_regs:
            h = holder_of(reg, r1, var2orig)
            v1 = r1.regs.get(h)
            if v1 != r0.regs[reg]:
                return [violation("%s:output-register-differs:%s:%s" % (pipeline, reg, kind),
                                  "%s: %s = %#x at the exit of the original, %s (read through %s) in the simplified graph (state %s); simplified: %s" % (
                                      desc, reg, r0.regs[reg], "%#x" % v1 if v1 is not None else "undefined", h, stxt, graph_text(out)), case)]
    return []


def _w(ws):
    return "[%s]" % ", ".join("@%d[%#x]=%#x" % (s, a, v) for a, s, v in ws)


def _wclass(w0, w1, mem, default_mem):
    """Class of a difference between two write sequences; a write is silent when it stores what the bytes already hold."""
    if len(w1) < len(w0):
        cur = dict(mem)
        silent = []
        for a, s, v in w0:
            old = 0
            for i in range(s // 8):
                x = (a + i) & 0xFFFFFFFF
                b = cur.get(x)
                old |= (default_mem(x) if b is None else b) << (8 * i)
                cur[x] = (v >> (8 * i)) & 0xFF
            silent.append(old == v)
        # is w1 = w0 minus some silent writes ?
        reach = {(0, 0)}
        for i in range(len(w0)):
            nxt = set()
            for (x, j) in reach:
                if x != i:
                    continue
                if j < len(w1) and w0[i] == w1[j]:
                    nxt.add((i + 1, j + 1))
                if silent[i]:
                    nxt.add((i + 1, j))
            reach = nxt
        if (len(w0), len(w1)) in reach:
            return "silent-store-dropped"
        return "write-lost"
    if len(w1) > len(w0):
        return "write-added"
    if [(a, s) for a, s, _ in w0] != [(a, s) for a, s, _ in w1]:
        return "address-differs"
    return "value-differs"


def used_entries(body_idx, alphabet):
    return sorted(set(alphabet[k] for b in body_idx for k in b))


def check_graph(n, shape_idx, body_idx, cond_idx, alphabet, conds, pipelines=PIPELINES, epi="add-ret", shape=None):
    """shape (explicit successor tuples) overrides the lattice index: templates may have more blocks than the lattice enumerates."""
    pipelines = tuple(pipelines)
    shape = tuple(tuple(x) for x in shape) if shape is not None else irgen.shapes(n)[shape_idx]
    case = {"kind": "irgen", "n": n, "shape": shape_idx, "bodies": body_idx, "conds": cond_idx, "alphabet": alphabet, "condnames": conds,
            "pipelines": list(pipelines), "epilogue": epi}
    if shape_idx is None:
        case["shape_tuple"] = [list(x) for x in shape]
    desc0 = irgen.describe(shape, body_idx, cond_idx, alphabet, conds) + (" [exit blocks end with: %s]" % ("r=r+a; sp=sp+4" if epi == "add-ret" else "sp=sp+4"))
    kind = "loop" if not irgen.shape_is_loop_free(shape) else "dag"
    info = {"states": 0, "skipped_states": 0, "compared": 0, "runs_with_writes": 0, "runs_with_calls": 0, "changed": 0, "raised": 0, "pipeline_runs": 0}
    vs = []
    g0 = build_graph(n, shape_idx, body_idx, cond_idx, alphabet, conds, epi, shape)
    it0 = irinterp.Interp(g0.loc_db)
    before = graph_text(g0.ircfg)
    for pipeline in pipelines:
        info["pipeline_runs"] += 1
        desc = "[%s] %s" % (pipeline, desc0)
        g = build_graph(n, shape_idx, body_idx, cond_idx, alphabet, conds, epi, shape)
        lifter = out_regs_lifter(type(g.lifter), g.loc_db) if pipeline == "ssa-outregs" else g.lifter
        try:
            out, var2orig = guarded(lambda: run_pipeline(pipeline, lifter, g.ircfg, g.head))
        except PipelineTimeout:
            info["raised"] += 1
            vs.append(violation("%s:pipeline-does-not-terminate:%s" % (pipeline, kind), "%s: the pipeline is still running after %d s of CPU time" % (desc, CPU_LIMIT), case))
            continue
        except Exception as e:
            info["raised"] += 1
            vs.append(violation("%s:raise:%s:%s" % (pipeline, type(e).__name__, kind), "%s: the pipeline raised %r" % (desc, e), case))
            continue
        if graph_text(out) != before:
            info["changed"] += 1
        it1 = irinterp.Interp(g.loc_db)
        A = g0.arch
        vs += differential(desc, case, pipeline, kind, it0, it1, g0.ircfg, g0.head, out, g.head, var2orig, states(g0), [A.r, A.sp], FUEL, info,
                           irdst=A.IRDst)
    return vs, info


# ------------------------------------------------------------------ x86 functions (thorough)

X86_PIPELINES = ("common", "ssa")


def check_x86(idx, pipelines=X86_PIPELINES):
    """Lifted functions are taken as the lifter gives them (ret writes ESP in the leaf, EAX is written wherever the
    code computes it): the pipelines are driven with the stock lifter, as example/disasm/full.py does."""
    from mc import x86funcs
    name = x86funcs.FUNCS[idx][0]
    case = {"kind": "x86", "index": idx, "name": name, "pipelines": list(pipelines)}
    info = {"states": 0, "skipped_states": 0, "compared": 0, "runs_with_writes": 0, "runs_with_calls": 0, "changed": 0, "raised": 0, "pipeline_runs": 0}
    vs = []
    f0 = x86funcs.lift(idx)
    kind = "x86/" + ("loop" if f0.has_loop else "dag")
    it0 = irinterp.Interp(f0.loc_db)
    before = graph_text(f0.ircfg)
    for pipeline in pipelines:
        info["pipeline_runs"] += 1
        desc = "[%s] x86_32 function %s {%s }" % (pipeline, name, " ;".join(l.strip() for l in x86funcs.FUNCS[idx][1].splitlines()))
        f = x86funcs.lift(idx)
        try:
            out, var2orig = guarded(lambda: run_pipeline(pipeline, f.lifter, f.ircfg, f.head))
        except PipelineTimeout:
            info["raised"] += 1
            vs.append(violation("%s:pipeline-does-not-terminate:%s" % (pipeline, kind), "%s: the pipeline is still running after %d s of CPU time" % (desc, CPU_LIMIT), case))
            continue
        except Exception as e:
            info["raised"] += 1
            vs.append(violation("%s:raise:%s:%s" % (pipeline, type(e).__name__, kind), "%s: the pipeline raised %r" % (desc, e), case))
            continue
        if graph_text(out) != before:
            info["changed"] += 1
        it1 = irinterp.Interp(f.loc_db)
        extra = x86funcs.all_ids(out)
        vs += differential(desc, case, pipeline, kind, it0, it1, f0.ircfg, f0.head, out, f.head, var2orig,
                           x86funcs.states(f0), [f0.regs.EAX, f0.regs.ESP], x86funcs.FUEL, info)
    return vs, info


# ------------------------------------------------------------------ enumeration

# ------------------------------------------------------------------ templates: dummy phi over a memory-reading definition
# A register reaches a join through copies of ONE definition on one path (saved in another register, restored after a
# store) and directly on the other; the definition is an operation containing a memory read (or, for comparison, a bare
# read / no read); the memory cell is stored to between the definition and the join, in one arm of a triangle / diamond
# or in a loop body.  Blocks hold up to 4 assignments, which the lattice does not reach.
#   (name, shape, per block alternative bodies, per block condition)
_DEFS = [("r=@[sp+4]+1",), ("r=zx@8[sp+5]",), ("a=@[sp+4]+1",), ("r=@[sp+4]",), ("r=a",)]
_ARMS = [("c=r", "@[sp+4]=0", "r=c"), ("c=r", "@[sp+4]=b", "r=c"), ("c=r", "@8[sp+5]=b", "r=c"), ("c=a", "@[sp+4]=b", "a=c"),
         ("c=r", "r=c"), ("@[sp+4]=b",)]
TEMPLATES = [
    ("dummy-phi/store-in-one-arm-of-a-triangle", ((1, 2), (2,), ()), [_DEFS, _ARMS, [()]], ["b", None, None]),
    ("dummy-phi/store-in-one-arm-of-a-diamond", ((1, 2), (3,), (3,), ()), [_DEFS[:3], _ARMS[:4], [(), ("c=r", "r=c")], [()]],
     ["b", None, None, None]),
    ("dummy-phi/store-in-a-loop-body", ((1,), (1, 2), ()), [_DEFS[:3], [x + ("a=a+1",) for x in _ARMS[:4]], [()]], [None, "a", None]),
]
# A join with three predecessors: the definition made in B0 reaches it through two edges (from B1 and from B2), another
# definition through the third; one of the edges out of B1 is statically dead (zf set from a constant, or a literal
# condition), so the SSA pipeline deletes it and must keep the phi source that still arrives through B2.
_J3A = ((1, 2), (3, 4), (3,), (), (3,))      # B1: cond ? join(3) : B4 ; B4: other definition -> join
_J3B = ((1, 2), (3, 4), (4,), (4,), ())      # B1: cond ? B3 : join(4) ; B3: other definition -> join
_SHARED = [("r=a",), ("a=a+1",)]
_OTHER = [("r=b",), ("a=b",)]
for _nm, _sh, _jn, _ot in (("a", _J3A, 3, 4), ("b", _J3B, 4, 3)):
    for _cond, _b1 in (("zf", [("zf=0",), ("zf=1",), ()]), ("0", [()]), ("1", [()])):
        _alts = [_SHARED, _b1, [()], None, None]
        _alts[_jn] = [()]
        _alts[_ot] = _OTHER
        _cn = ["b", _cond, None, None, None]
        TEMPLATES.append(("three-predecessor-join/%s/B1-condition-%s" % (_nm, _cond), _sh, _alts, _cn))


def template_point(ti, choice):
    """A template member as a lattice point (n, shape index, body indexes, condition indexes, alphabet, conditions)."""
    name, shape, alts, cond_names = TEMPLATES[ti]
    n = len(shape)
    bodies = [alts[i][choice[i]] for i in range(n)]
    alphabet = sorted(set(x for b in bodies for x in b))
    conds = sorted(set(c for c in cond_names if c)) or ["a"]
    body_idx = tuple(tuple(alphabet.index(x) for x in b) for b in bodies)
    cond_idx = tuple(conds.index(c) if c else 0 for c in cond_names)
    return n, None, body_idx, cond_idx, alphabet, conds


def _template_shard(args):
    _, ti, pipelines, epi = args
    name, shape, alts, cond_names = TEMPLATES[ti]
    cnt = nt = 0
    vs, sigs, tot, sample = [], {}, {}, None
    for choice in itertools.product(*[range(len(a)) for a in alts]):
        cnt += 1
        n, si, body_idx, cond_idx, alphabet, conds = template_point(ti, choice)
        v, info = check_graph(n, si, body_idx, cond_idx, alphabet, conds, pipelines, epi, shape)
        for k, x in info.items():
            tot[k] = tot.get(k, 0) + x
        if info["changed"] and info["compared"]:
            nt += 1
            if sample is None:
                sample = "template %s: %s" % (name, irgen.describe(shape, body_idx, cond_idx, alphabet, conds))
        for x in v:
            sigs[x["sig"]] = sigs.get(x["sig"], 0) + 1
            if sigs[x["sig"]] <= 2:
                vs.append(x)
    tot["template_graphs"] = cnt
    return cnt, nt, vs, sample, sigs, tot


def _shard(args):
    if args[0] == "template":
        return _template_shard(args)
    if args[0] == "x86":
        v, info = check_x86(args[1])
        sigs = {}
        for x in v:
            sigs[x["sig"]] = sigs.get(x["sig"], 0) + 1
        from mc import x86funcs
        return 1, 1 if info["changed"] and info["compared"] else 0, v, "x86:" + x86funcs.FUNCS[args[1]][0], sigs, info
    _, n, maxlen, alphabet, conds, lo, hi, pipelines, epi = args
    shapes = irgen.shapes(n)
    bl = irgen.bodies(alphabet, maxlen)
    cnt = nt = 0
    vs = []
    sigs = {}
    tot = {}
    sample = None
    hangs = 0
    stop = False
    for si in range(lo, hi):
        shape = shapes[si]
        if not irgen.shape_has_exit(shape):
            continue
        ncond = [len(conds) if len(s) == 2 else 1 for s in shape]
        for body_idx in itertools.product(bl, repeat=n):
            for cond_idx in itertools.product(*[range(k) for k in ncond]):
                cnt += 1
                v, info = check_graph(n, si, body_idx, cond_idx, alphabet, conds, pipelines, epi)
                for k, x in info.items():
                    tot[k] = tot.get(k, 0) + x
                if info["changed"] and info["compared"]:
                    nt += 1
                    if sample is None and sum(len(b) for b in body_idx) >= 2:
                        sample = irgen.describe(shape, body_idx, cond_idx, alphabet, conds) + " [%s]" % epi
                for x in v:
                    sigs[x["sig"]] = sigs.get(x["sig"], 0) + 1
                    if sigs[x["sig"]] <= 2:
                        vs.append(x)
                    if ":pipeline-does-not-terminate:" in x["sig"] or x["sig"].startswith("propagate_cst_expr:does-not-terminate"):
                        hangs += 1
                if hangs >= MAX_HANGS_PER_SHARD:
                    stop = True
                    break
            if stop:
                break
        if stop:
            break
    planned = 0
    for si in range(lo, hi):
        if irgen.shape_has_exit(shapes[si]):
            k = len(bl) ** n
            for sx in shapes[si]:
                k *= len(conds) if len(sx) == 2 else 1
            planned += k
    tot["not_run"] = planned - cnt
    return cnt, nt, vs, sample, sigs, tot


ALL3 = ("common", "ssa", "ssa-outregs")
TWO = ("common", "ssa")
ALPHA_REG = ["a=b", "a=a+1", "swap"]
ALPHA_MIX = ["a=b", "a=a+1", "swap", "r=a", "@[sp+4]=a", "a=@[sp+4]"]
ALPHA_MIX3 = ["a=b", "a=a+1", "swap", "@[sp+4]=a", "a=@[sp+4]"]
ALPHA_MEM = ["@[sp+4]=a", "a=@[sp+4]", "@[a]=b", "r=call(a)", "sp=sp-4"]
# narrow stores at offsets >= their own size inside the wider slot @[sp+4] whose content is known, reads of the slot
# and narrow reads of the wide store
ALPHA_WIDTH = ["@[sp+4]=a", "@8[sp+5]=b", "@8[sp+6]=b", "@8[sp+7]=b", "@16[sp+6]=b", "r=@[sp+4]", "r=@8[sp+6]", "r=@16[sp+6]"]
ALPHA_WIDTH_Q = ["@[sp+4]=a", "@8[sp+5]=b", "@8[sp+6]=b", "@16[sp+6]=b", "r=@[sp+4]", "r=@16[sp+6]"]
ALPHA_N2 = ["a=b", "a=a+1", "swap", "r=a", "@[sp+4]=a", "a=@[sp+4]", "@[a]=b", "r=call(a)", "sp=sp-4"]
PLAN_Q = [
    (1, 2, ALPHA_FULL, ["a"], TWO, "add-ret"),
    (1, 2, ALPHA_FULL, ["a"], ("ssa",), "ret"),
    (2, 1, ALPHA_N2, ["a"], ALL3, "add-ret"),
    (2, 1, ALPHA_N2, ["a"], TWO, "ret"),
    (3, 1, ["a=a+1", "swap"], ["a"], ("ssa",), "add-ret"),
    (1, 3, ALPHA_WIDTH_Q, ["a"], ("ssa",), "add-ret"),
]
PLAN_T = [
    (1, 3, ALPHA_FULL, ["a"], TWO, "add-ret"),
    (1, 2, ALPHA_FULL, ["a"], TWO, "ret"),
    (2, 2, ALPHA_MIX, ["a"], TWO, "add-ret"),
    (2, 1, ALPHA_FULL, ["a", "a==b", "a<u2"], ALL3, "add-ret"),
    (2, 1, ALPHA_FULL, ["a"], TWO, "ret"),
    (3, 1, ALPHA_MIX3, ["a"], TWO, "add-ret"),
    (3, 1, ALPHA_MEM, ["a"], ("ssa",), "add-ret"),
    (3, 1, ["a=a+1", "r=a", "r=call(a)"], ["a"], TWO, "ret"),
    (4, 1, ["swap"], ["a"], ("ssa",), "add-ret"),
    (1, 3, ALPHA_WIDTH, ["a"], ALL3, "add-ret"),
    (2, 2, ["@[sp+4]=a", "@8[sp+6]=b", "@16[sp+6]=b", "r=@[sp+4]", "r=@16[sp+6]"], ["a"], ("ssa",), "add-ret"),
    (3, 1, ["@[sp+4]=a", "@8[sp+5]=b", "@8[sp+7]=b", "@16[sp+6]=b", "r=@[sp+4]", "r=@8[sp+6]"], ["a"], ("ssa",), "add-ret"),
]


def _preimport():
    """Import miasm in the parent so that the forked workers share the compiled modules."""
    import miasm.analysis.simplifier
    import miasm.analysis.data_flow
    import miasm.analysis.ssa
    import miasm.analysis.outofssa
    import miasm.ir.analysis
    import miasm.core.locationdb
    irgen.build(irgen.shapes(1)[0], ((),), (0,), [], ["a"])


def run(ctx):
    plan = PLAN_Q if ctx.quick else PLAN_T
    _preimport()
    shards = []
    for n, maxlen, alphabet, conds, pipelines, epi in plan:
        ns = len(irgen.shapes(n))
        idx = [i for i in range(ns) if irgen.shape_has_exit(irgen.shapes(n)[i])]
        for i in idx:
            shards.append(("irgen", n, maxlen, alphabet, conds, i, i + 1, pipelines, epi))
    for ti in range(len(TEMPLATES)):
        shards.append(("template", ti, TWO if ctx.quick else ALL3, "add-ret"))
        shards.append(("template", ti, ("ssa",) if ctx.quick else TWO, "ret"))
    nx86 = 0
    if not ctx.quick:
        from mc import x86funcs
        nx86 = len(x86funcs.FUNCS)
        for i in range(nx86):
            shards.append(("x86", i))
    res = ctx.pmap(_shard, shards)
    sigcount = {}
    tot = {}
    for r in res:
        ctx.add_violations(r[2])
        for k, v in r[4].items():
            sigcount[k] = sigcount.get(k, 0) + v
        for k, v in r[5].items():
            tot[k] = tot.get(k, 0) + v
    return {
        "evaluations": sum(r[0] for r in res),
        "distinct_nontrivial": sum(r[1] for r in res),
        "pipeline_runs": tot.get("pipeline_runs", 0),
        "pipeline_runs_that_changed_the_graph": tot.get("changed", 0),
        "pipeline_runs_that_raised": tot.get("raised", 0),
        "state_runs": tot.get("states", 0),
        "state_runs_skipped_fuel": tot.get("skipped_states", 0),
        "state_runs_compared": tot.get("compared", 0),
        "compared_runs_with_memory_writes": tot.get("runs_with_writes", 0),
        "compared_runs_with_call_events": tot.get("runs_with_calls", 0),
        "template_graphs(dummy phi; three-predecessor join)": tot.get("template_graphs", 0),
        "x86_functions": nx86,
        "graphs_not_run_after_repeated_non_termination": tot.get("not_run", 0),
        "violating_graphs_by_signature": sigcount,
        "samples": [r[3] for r in res if r[3]][:6],
        "exhaustive": True,
        "bounds": {"plan(blocks,max_assignments,alphabet,conditions,pipelines,exit_epilogue)": [[n, l, a, c, list(p), e] for n, l, a, c, p, e in plan],
                   "templates(name,shape,body_alternatives,conditions; quick: common+ssa with exit 'add-ret', ssa with 'ret'; thorough: all three / common+ssa)":
                       [[t[0], t[1], t[2], t[3]] for t in TEMPLATES],
                   "fuel_blocks": FUEL, "x86_pipelines": list(X86_PIPELINES),
                   "state_lattice": "a,b in {0,1,2,0xFFFFFFFF} (when read), sp in {0x1000,0xFFFFFFFC} and bytes sp+4..sp+11 in {address pattern, zero} (when memory is used)"},
    }


def replay(case):
    if case.get("kind") == "x86":
        return check_x86(case["index"])[0]
    return check_graph(case["n"], case["shape"], tuple(tuple(b) for b in case["bodies"]), tuple(case["conds"]), list(case["alphabet"]),
                       list(case["condnames"]), tuple(case.get("pipelines", PIPELINES)), case.get("epilogue", "add-ret"),
                       case.get("shape_tuple"))[0]
