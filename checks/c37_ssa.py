"""C37 - SSA construction is valid and out-of-SSA preserves behaviour.

Engine E2 over the irgen lattice of connected IR graphs (every CFG shape with <= N blocks: self loops,
loops through the head, irreducible loops, diamonds; bodies over an alphabet containing the swap and
lost-copy ingredients: parallel swap, a=b, a=a+1 inside loops).

Structural oracle on the graph produced by the real SSADiGraph.transform:
  * every renamed variable has exactly one definition in the whole graph;
  * each ordinary use is dominated by the definition (dominators by brute force: d dominates n iff n is
    unreachable from the head once d is removed; same block => defined in an earlier AssignBlock);
  * each Phi argument that has a definition is defined in a block dominating some predecessor of the Phi's block.
Behavioural oracle: the graph translated back by the real UnSSADiGraph (driven exactly as
IRCFGSimplifierSSA.ssa_to_unssa does) is run by the reference interpreter (mc/irinterp.py) next to the
original graph from every state of a small lattice: same exit, same memory writes, and every original
register holds the same final value, read through the last-assigned version that stands for it.
"""
import itertools

from mc import irgen, irinterp
from mc.runner import violation

PROP = "C37"
LEVEL = "exploration"
ENGINE = "enum"
RULE = ("complete product: CFG shapes (<= N blocks, every block reachable) x bodies (<= L assignments per block) x branch "
        "conditions x {IRDst in its own AssignBlock, IRDst set by the last AssignBlock of the body}, each run from every state of the register lattice; distinct = distinct graph; non-trivial = SSA placed "
        "at least one Phi")
LEVEL_TEXT = ("Bounded-exhaustive enumeration of small connected IR graphs through the real SSA construction and out-of-SSA "
              "translation; structural SSA conditions decided with brute-force dominators, behaviour decided by an independent "
              "reference interpreter over a complete small state lattice. The algorithms are shape-generic (dominance frontiers, "
              "phi webs, parallel copies): swap / lost-copy / irreducible cases appear with 2-3 blocks.")
LEVEL_NOTE = ("Trusted: mc/irinterp.py + mc/refsem.py, the brute-force dominator computation here. Runs that exceed the fuel "
              "bound in the original graph are skipped and counted. Memory cells are not renamed by SSA and only appear in the thorough tier.")
TECHNIQUE = "bounded-exhaustive enumeration of IR graphs; brute-force dominance conditions + reference-interpreter differential"
ASSUMPTIONS = ["values of registers read before any write are the inputs of both graphs"]

ALPHA_Q = ["a=b", "a=a+1", "swap", "b=1", "r=a"]
ALPHA_T = ["a=b", "a=a+1", "swap", "b=1", "r=a", "c=a+b", "@[sp+4]=a", "b=@[sp+4]"]
CONDS = ["zf", "a"]
FUEL = 10


def dominators(succ, head):
    nodes = set(succ)
    for v in succ.values():
        nodes |= set(v)

    def reach(removed):
        if head == removed:
            return set()
        seen = {head}
        todo = [head]
        while todo:
            n = todo.pop()
            for s in succ.get(n, ()):
                if s != removed and s not in seen:
                    seen.add(s)
                    todo.append(s)
        return seen
    allr = reach(None)
    dom = {n: set() for n in allr}
    for d in allr:
        r = reach(d)
        for n in allr:
            if n == d or n not in r:
                dom[n].add(d)
    return dom


def reads_of(assignblk):
    out = []
    for dst, src in assignblk.items():
        ids = set(src.get_r(mem_read=True))
        if dst.is_mem():
            ids |= set(dst.ptr.get_r(mem_read=True))
        out.append((dst, src, set(x for x in ids if x.is_id())))
    return out


def structural(g, ssa, head, desc, case):
    vs = []
    graph = ssa.graph
    succ = {n: list(graph.successors(n)) for n in graph.nodes()}
    preds = {n: list(graph.predecessors(n)) for n in graph.nodes()}
    dom = dominators(succ, head)
    immutable = set(ssa.immutable_ids)
    defs = {}
    for lk, blk in graph.blocks.items():
        for i, ab in enumerate(blk):
            for dst in ab:
                if dst.is_id() and dst not in immutable:
                    defs.setdefault(dst, []).append((lk, i))
    for v, where in defs.items():
        if len(where) > 1:
            vs.append(violation("ssa:multiple-definitions", "%s: %s defined %d times in the SSA graph" % (desc, v, len(where)), case))
            return vs
    for lk, blk in graph.blocks.items():
        if lk not in dom:
            continue
        for i, ab in enumerate(blk):
            for dst, src, ids in reads_of(ab):
                is_phi = src.is_op("Phi")
                for v in ids:
                    if v not in defs:
                        continue
                    dlk, di = defs[v][0]
                    if is_phi:
                        ok = any(dlk in dom.get(p, ()) for p in preds.get(lk, ()))
                        if not ok:
                            vs.append(violation("ssa:phi-argument-not-defined-on-a-predecessor-path",
                                                "%s: Phi argument %s of %s (block %s) is defined in a block dominating no predecessor" % (desc, v, dst, lk), case))
                            return vs
                    else:
                        ok = (dlk == lk and di < i) or (dlk != lk and dlk in dom[lk])
                        if not ok:
                            vs.append(violation("ssa:use-not-dominated-by-definition",
                                                "%s: use of %s in %s = %s (block %s, line %d) is not dominated by its definition (%s, %d)" % (desc, v, dst, src, lk, i, dlk, di), case))
                            return vs
    return vs


def states(A):
    vals = [0, 1, 0xFFFFFFFF]
    for a, b, zf in itertools.product(vals, vals, (0, 1)):
        yield {A.a: a, A.b: b, A.c: 3, A.r: 7, A.sp: 0x1000, A.zf: zf, A.END: 0xDEAD0000, A.pc: 0}


def ref_copy_fold(ssa):
    """Reference copy folding on a graph in SSA form: for every plain copy x = y between two SSA-renamed variables, every ordinary
    use of x (sources that are not Phi nodes, addresses of memory destinations) reads y instead. In SSA y has a single definition,
    which dominates the copy and hence every use of x, so the graph is still valid SSA with the same behaviour; the copy is left in
    place. This is the state in which IRCFGSimplifierSSA hands a graph to out-of-SSA (after its propagation passes)."""
    from miasm.expression.expression import ExprMem
    from miasm.ir.ir import AssignBlock, IRBlock
    renamed = ssa.ssa_variable_to_expr
    copies = {}
    for blk in ssa.graph.blocks.values():
        for ab in blk:
            for dst, src in ab.items():
                if dst.is_id() and src.is_id() and dst in renamed and src in renamed:
                    copies[dst] = src
    if not copies:
        return 0
    for x in list(copies):
        y, seen = copies[x], {x}
        while y in copies and y not in seen:
            seen.add(y)
            y = copies[y]
        copies[x] = y
    folded = 0
    for loc, blk in list(ssa.graph.blocks.items()):
        abs_ = []
        for ab in blk:
            new = {}
            for dst, src in ab.items():
                ndst = ExprMem(dst.ptr.replace_expr(copies), dst.size) if dst.is_mem() else dst
                nsrc = src if src.is_op("Phi") else src.replace_expr(copies)
                folded += (ndst != dst) + (nsrc != src)
                new[ndst] = nsrc
            abs_.append(AssignBlock(new, ab.instr))
        ssa.graph.blocks[loc] = IRBlock(blk.loc_db, loc, abs_)
    return folded


def check_graph(n, shape_idx, body_idx, cond_idx, alphabet, CONDS=CONDS, merge=False, fold=False):
    from miasm.analysis.ssa import SSADiGraph
    from miasm.analysis.outofssa import UnSSADiGraph
    from miasm.analysis.data_flow import DiGraphLivenessSSA
    from miasm.ir.ir import IRCFG
    shape = irgen.shapes(n)[shape_idx]
    case = {"n": n, "shape": shape_idx, "bodies": body_idx, "conds": cond_idx, "alphabet": alphabet, "condnames": CONDS,
            "merge_irdst": merge, "copy_fold": fold}
    desc = irgen.describe(shape, body_idx, cond_idx, alphabet, CONDS) + (" [IRDst set by the last AssignBlock of each body]" if merge else "") + (
        " [SSA copies folded into their uses before out-of-SSA]" if fold else "")
    g0 = irgen.build(shape, body_idx, cond_idx, alphabet, CONDS, merge_irdst=merge)
    g = irgen.build(shape, body_idx, cond_idx, alphabet, CONDS, merge_irdst=merge)
    A = g.arch
    info = {"phi": False, "skipped_states": 0, "states": 0, "folded": 0}
    vs = []
    try:
        ssa = SSADiGraph(g.ircfg)
        ssa.immutable_ids.update([A.pc, A.IRDst])
        ssa.transform(g.head)
    except Exception as e:
        return [violation("ssa:transform-raise:%s" % type(e).__name__, "%s: SSADiGraph.transform raised %r" % (desc, e), case)], info
    info["phi"] = any(src.is_op("Phi") for blk in ssa.graph.blocks.values() for ab in blk for src in ab.values())
    vs += structural(g, ssa, g.head, desc, case)
    if vs:
        return vs, info
    var2orig = dict(ssa.ssa_variable_to_expr)
    if fold:
        info["folded"] = ref_copy_fold(ssa)
        vs += structural(g, ssa, g.head, desc + " (harness: reference copy folding)", case)
        if vs:
            for v in vs:
                v["sig"] = "harness:" + v["sig"]
            return vs, info
    try:
        g.lifter.ssa_var = dict(var2orig)
        lv = DiGraphLivenessSSA(ssa.graph)
        lv.init_var_info(g.lifter)
        lv.compute_liveness()
        UnSSADiGraph(ssa, g.head, lv)
        out = ssa.graph
    except Exception as e:
        return [violation("unssa:raise:%s" % type(e).__name__, "%s: out-of-SSA raised %r" % (desc, e), case)], info
    it0 = irinterp.Interp(g0.loc_db)
    it1 = irinterp.Interp(g.loc_db)
    # g0 and g are built identically: identical ExprId objects (hash-consing), separate LocationDBs
    for st in states(A):
        info["states"] += 1
        r0 = it0.run(g0.ircfg, g0.head, st, fuel=FUEL)
        if r0.fuel_out or r0.undefined:
            info["skipped_states"] += 1
            continue
        try:
            r1 = it1.run(out, g.head, st, fuel=FUEL * 4 + 8, irdst=A.IRDst)
        except KeyError as e:
            vs.append(violation("unssa:reads-undefined-variable", "%s: out-of-SSA graph reads %s which nothing defines (state %s)" % (desc, e, _st(st)), case))
            break
        if r1.fuel_out:
            vs.append(violation("unssa:does-not-terminate", "%s: original ends after %d blocks, out-of-SSA graph still running after %d (state %s)" % (desc, len(r0.path), FUEL * 4 + 8, _st(st)), case))
            break
        if r1.exit != r0.exit:
            vs.append(violation("unssa:exit-differs", "%s: exit %r vs %r (state %s)" % (desc, r0.exit, r1.exit, _st(st)), case))
            break
        if r1.writes != r0.writes:
            vs.append(violation("unssa:memory-writes-differ", "%s: writes %r vs %r (state %s)" % (desc, r0.writes, r1.writes, _st(st)), case))
            break
        bad = None
        for v in (A.a, A.b, A.c, A.r, A.zf, A.sp):
            holder, best = v, r1.assign_seq.get(v, 0)
            for d, sq in r1.assign_seq.items():
                if var2orig.get(d) == v and sq > best:
                    holder, best = d, sq
            if r1.regs.get(holder) != r0.regs[v]:
                bad = (v, holder, r0.regs[v], r1.regs.get(holder))
                break
        if bad:
            loopy = "loop" if not irgen.shape_is_loop_free(shape) else "dag"
            vs.append(violation("unssa:register-differs:%s:%s" % (bad[0], loopy),
                                "%s: final %s = %#x in the original, %#x (through %s) after SSA/out-of-SSA (state %s)" % (
                                    desc, bad[0], bad[2], bad[3] if bad[3] is not None else -1, bad[1], _st(st)), case))
            break
    return vs, info


def _st(st):
    return "{%s}" % ",".join("%s=%#x" % (k, v) for k, v in sorted(st.items(), key=lambda kv: str(kv[0])) if str(k) in ("a", "b", "zf"))


def _shard(args):
    n, maxlen, alphabet, CONDS, lo, hi = args[:6]
    fold = len(args) > 6 and args[6]
    shapes = irgen.shapes(n)
    bl = irgen.bodies(alphabet, maxlen)
    cnt = nt = 0
    vs = []
    sigs = {}
    skipped = states_run = nfold = 0
    sample = None
    for si in range(lo, hi):
        shape = shapes[si]
        ncond = [len(CONDS) if len(s) == 2 else 1 for s in shape]
        for body_idx in itertools.product(bl, repeat=n):
            for cond_idx, merge in itertools.product(itertools.product(*[range(k) for k in ncond]),
                                                     (False, True) if any(body_idx) else (False,)):
                cnt += 1
                v, info = check_graph(n, si, body_idx, cond_idx, alphabet, CONDS, merge, fold)
                nfold += 1 if info.get("folded") else 0
                skipped += info["skipped_states"]
                states_run += info["states"]
                if info["phi"]:
                    nt += 1
                    if sample is None:
                        sample = irgen.describe(shape, body_idx, cond_idx, alphabet, CONDS)
                for x in v:
                    sigs[x["sig"]] = sigs.get(x["sig"], 0) + 1
                    if sigs[x["sig"]] <= 3:
                        vs.append(x)
    return cnt, nt, vs, sample, sigs, skipped, states_run, nfold


ALPHA_FOLD = ["c=a", "a=a+4", "@[c]=b", "a=b"]
ALPHA_FOLD_T = ["c=a", "a=a+4", "@[c]=b", "a=b", "r=@[c]", "swap"]


def run(ctx):
    if ctx.quick:
        plan = [(1, 2, ALPHA_Q, CONDS), (2, 1, ALPHA_Q, CONDS), (3, 1, ["a=b", "a=a+1", "swap"], ["a"])]
    else:
        plan = [(1, 3, ALPHA_Q, CONDS), (2, 2, ALPHA_Q, CONDS), (2, 1, ALPHA_T, CONDS), (3, 1, ALPHA_Q, ["a"]),
                (3, 1, ["a=b", "a=a+1", "swap"], CONDS), (4, 1, ["a=b", "swap"], ["a"])]
    # copy-folded family: the same pipeline with the SSA copies folded into their uses (reference folding) before out-of-SSA
    if ctx.quick:
        plan_fold = [(1, 3, ALPHA_FOLD, ["a"]), (2, 2, ["c=a", "a=a+4", "@[c]=b"], ["a"])]
    else:
        # same copy-folded lattice as the quick tier: the deeper plan could not be run to completion on HEAD before the session
        # ended, and an unverified plan is not registered (DESIGN 9.7)
        plan_fold = [(1, 3, ALPHA_FOLD, ["a"]), (2, 2, ["c=a", "a=a+4", "@[c]=b"], ["a"])]
    shards = []
    for fold, pl in ((False, plan), (True, plan_fold)):
        for n, maxlen, alphabet, conds in pl:
            ns = len(irgen.shapes(n))
            step = max(1, ns // 96)
            for lo in range(0, ns, step):
                shards.append((n, maxlen, alphabet, conds, lo, min(ns, lo + step), fold))
    res = ctx.pmap(_shard, shards)
    sigcount = {}
    for r in res:
        ctx.add_violations(r[2])
        for k, v in r[4].items():
            sigcount[k] = sigcount.get(k, 0) + v
    return {
        "evaluations": sum(r[0] for r in res),
        "distinct_nontrivial": sum(r[1] for r in res),
        "state_runs": sum(r[6] for r in res),
        "graphs_with_a_folded_copy": sum(r[7] for r in res),
        "state_runs_skipped_fuel": sum(r[5] for r in res),
        "violating_graphs_by_signature": sigcount,
        "samples": [r[3] for r in res if r[3]][:5],
        "exhaustive": True,
        "bounds": {"plan(blocks,max_assignments,alphabet,conditions)": [[n, l, a, c] for n, l, a, c in plan],
                   "plan_copy_folded(blocks,max_assignments,alphabet,conditions)": [[n, l, a, c] for n, l, a, c in plan_fold],
                   "fuel_blocks": FUEL, "state_lattice": "a,b in {0,1,0xFFFFFFFF}, zf in {0,1}"},
    }


def replay(case):
    return check_graph(case["n"], case["shape"], tuple(tuple(b) for b in case["bodies"]), tuple(case["conds"]), list(case["alphabet"]),
                       list(case.get("condnames", CONDS)), bool(case.get("merge_irdst")), bool(case.get("copy_fold")))[0]
