"""C38 - data-flow analyses match their path-based definitions.

Engine E2: every IR graph of the irgen lattice (all CFG shapes with <= N blocks incl. self loops, loops
through the head, irreducible shapes; every body of <= L register assignments from an ordered alphabet;
leaf terminator either an identifier or a constant) is analysed by the real
  ReachingDefinitions, DiGraphDefUse, DiGraphLiveness (via DiGraphLivenessIRA with declared out registers)
and compared with the path-based definitions, evaluated by plain graph search on the "program point" graph
(a node per position between AssignBlocks; an edge per AssignBlock and per CFG edge):

  * definition d = (block, index, var) reaches point p  <=>  some path from just after d to p crosses no
    AssignBlock writing var;
  * def-use edge (d -> u) <=> d reaches the point before u's AssignBlock and u's source reads var;
  * var is live at p <=> some path from p reads var before writing it (reads of an AssignBlock happen before
    its writes), or reaches the end of a leaf block where var is a declared output register.
"""
import itertools

from mc import irgen
from mc.runner import violation

PROP = "C38"
LEVEL = "exploration"
ENGINE = "enum"
RULE = ("complete product: CFG shapes (<= N blocks, out-degree <= 2, all reachable; plus every such shape extended by a "
        "self-looping block or a two-block cycle that no head reaches, separate or feeding a block of the main part) x bodies (<= L assignments per block from "
        "a register-only alphabet) x leaf terminator kind; distinct = distinct graph; non-trivial = the graph has a join, a "
        "loop or a redefinition (some variable defined twice or a block with two predecessors)")
LEVEL_TEXT = ("Bounded-exhaustive enumeration of small IR graphs; the three analyses run on the real classes and are compared, "
              "fact by fact, with brute-force path search straight from the definitions. Data-flow code is shape-generic: "
              "mistakes in propagation order, joins or kill sets show on 3-4 block graphs.")
LEVEL_NOTE = ("Trusted: the ~60-line point-graph search in this module. Reaching definitions / def-use on register-only programs "
              "(memory cells are not variables with an exact path-based meaning); liveness additionally on programs with loads and "
              "stores through registers, compared on registers only; DiGraphLivenessSSA is not covered here.")
TECHNIQUE = "bounded-exhaustive enumeration of IR graphs against brute-force path-based definitions"
ASSUMPTIONS = ["declared output registers of the fake architecture: r and sp"]

ALPHABET_Q = ["a=b", "a=a+1", "b=1", "c=a+b", "swap", "r=a", "zf=a==b"]
ALPHABET_T = ["a=b", "a=a+1", "b=1", "swap", "r=a", "zf=a==b"]
ALPHABET_M = ["a=b", "a=a+1", "@[a]=b", "b=@[a]", "r=a", "@[sp+4]=a"]      # liveness of registers used as load/store addresses
CONDS = ["zf"]


def point_graph(g):
    """points: (block index, position); edges with the AssignBlock crossed (or None for CFG edges)."""
    ircfg = g.ircfg
    blocks = [ircfg.blocks[l] for l in g.locs]
    succ = {}
    for bi, blk in enumerate(blocks):
        for i in range(len(blk)):
            succ[(bi, i)] = [((bi, i + 1), blk[i])]
        succ[(bi, len(blk))] = [((sj, 0), None) for sj in g.shape[bi]]
    return blocks, succ


def reads_writes(assignblk):
    from miasm.expression.expression import ExprAssign
    reads, writes = set(), set()
    for dst, src in assignblk.items():
        e = ExprAssign(dst, src)
        reads |= e.get_r(mem_read=True)
        writes |= e.get_w()
    return reads, writes


def ref_reaching(g):
    """dict point -> dict var -> set of (block idx, assign idx)"""
    blocks, succ = point_graph(g)
    out = {p: {} for p in succ}
    for bi, blk in enumerate(blocks):
        for i in range(len(blk)):
            for var in blk[i]:
                # search from the point after the definition, not crossing writers of var
                start = (bi, i + 1)
                seen = {start}
                todo = [start]
                while todo:
                    p = todo.pop()
                    out[p].setdefault(var, set()).add((bi, i))
                    for q, ab in succ[p]:
                        if ab is not None and var in ab:
                            continue
                        if q not in seen:
                            seen.add(q)
                            todo.append(q)
    return out


def ref_liveness(g, out_regs):
    """Declared output registers are live at the end of the blocks that are leaves of the IR graph
    (a block whose destination is a constant address outside the graph has a successor node: not a leaf)."""
    blocks, succ = point_graph(g)
    graph_leaves = set(g.ircfg.leaves())
    allvars = set()
    rw = {}
    for bi, blk in enumerate(blocks):
        for i in range(len(blk)):
            r, w = reads_writes(blk[i])
            rw[(bi, i)] = (r, w)
            allvars |= r | w
    allvars |= set(out_regs)
    live = {p: set() for p in succ}
    for v in allvars:
        for p0 in succ:
            seen = {p0}
            todo = [p0]
            found = False
            while todo and not found:
                p = todo.pop()
                edges = succ[p]
                if not edges and p[1] == len(blocks[p[0]]) and len(g.shape[p[0]]) == 0:
                    if v in out_regs and g.locs[p[0]] in graph_leaves:
                        found = True
                    continue
                for q, ab in edges:
                    if ab is not None:
                        r, w = rw[p]
                        if v in r:
                            found = True
                            break
                        if v in w:
                            continue
                    if q not in seen:
                        seen.add(q)
                        todo.append(q)
            if found:
                live[p0].add(v)
    return live


def extra_shapes(n):
    """Shapes with blocks that are NOT reachable from block 0: every shape of irgen.shapes(n) extended by a region that
    no head reaches (a self-looping block, or a two-block cycle), either a separate component or feeding block j of the
    main part.  Path-based definitions do not care about reachability from a head; the analyses must not either."""
    out = []
    for base in irgen.shapes(n):
        x, y = n, n + 1
        for feed in [None] + list(range(n)):
            out.append(tuple(base) + (((x,) if feed is None else (x, feed)),))
            out.append(tuple(base) + ((y,), ((x,) if feed is None else (x, feed))))
    return out


def check_graph(shape_idx, n, body_idx, cond_idx, alphabet, end_const, extra=False):
    from miasm.analysis.data_flow import ReachingDefinitions, DiGraphDefUse, DiGraphLivenessIRA, AssignblkNode
    shape = extra_shapes(n)[shape_idx] if extra else irgen.shapes(n)[shape_idx]
    g = irgen.build(shape, body_idx, cond_idx, alphabet, CONDS, end_const=end_const)
    case = {"n": n, "shape": shape_idx, "bodies": body_idx, "conds": cond_idx, "alphabet": alphabet, "end_const": end_const,
            "extra": extra}
    desc = irgen.describe(shape, body_idx, cond_idx, alphabet, CONDS) + (" [END=const]" if end_const else " [END=id]")
    kind = "loop" if not irgen.shape_is_loop_free(shape) else "dag"
    kind += "/no-leaf" if not irgen.shape_has_exit(shape) else ""
    kind += "/unreachable-region" if extra else ""
    vs = []
    blocks, succ = point_graph(g)
    idx_of = {l: i for i, l in enumerate(g.locs)}
    with_mem = any("@" in name for name in alphabet)
    # ---- reaching definitions
    try:
        if with_mem:
            # memory alphabets serve the liveness comparison only (registers read by load/store ADDRESSES are uses);
            # memory cells are not variables with an exact path-based meaning
            raise _SkipRD()
        rd = ReachingDefinitions(g.ircfg)
        ref = ref_reaching(g)
        for (bi, i) in succ:
            got = rd.get_definitions(g.locs[bi], i)
            got = {v: set((idx_of[l], k) for (l, k) in defs) for v, defs in got.items() if defs}
            want = {v: s for v, s in ref[(bi, i)].items() if s}
            if got != want:
                miss = any(want.get(v, set()) - got.get(v, set()) for v in want)
                vs.append(violation("reaching:%s:%s" % ("missing" if miss else "extra", kind),
                                    "%s: reaching definitions at B%d[%d]: got %s, path-based %s" % (desc, bi, i, _fmt(got), _fmt(want)), case))
                break
        # ---- def-use
        du = DiGraphDefUse(rd)
        got_edges = set()
        for s, d in du.edges():
            got_edges.add(((idx_of[s.label], s.index, s.var), (idx_of[d.label], d.index, d.var)))
        want_edges = set()
        for bi, blk in enumerate(blocks):
            for i in range(len(blk)):
                for lval, src in blk[i].items():
                    for rv in src.get_r(mem_read=False):
                        for (dbi, di) in ref[(bi, i)].get(rv, ()):
                            want_edges.add(((dbi, di, rv), (bi, i, lval)))
        if got_edges != want_edges:
            miss = want_edges - got_edges
            vs.append(violation("defuse:%s:%s" % ("missing" if miss else "extra", kind),
                                "%s: def-use edges differ: missing %s extra %s" % (desc, sorted(map(str, miss))[:3], sorted(map(str, got_edges - want_edges))[:3]), case))
    except _SkipRD:
        pass
    except Exception as e:
        vs.append(violation("reaching/defuse:raise:%s:%s" % (type(e).__name__, kind), "%s: %r" % (desc, e), case))
    # ---- liveness
    try:
        lv = DiGraphLivenessIRA(g.ircfg)
        lv.init_var_info(g.lifter)
        lv.compute_liveness()
        out_regs = g.lifter.get_out_regs(None)
        ref = ref_liveness(g, out_regs)
        done = False
        for bi, blk in enumerate(blocks):
            infos = lv.blocks[g.locs[bi]].infos
            for i in range(len(blk)):
                for nm, got, want in (("in", set(infos[i].var_in), ref[(bi, i)]), ("out", set(infos[i].var_out), ref[(bi, i + 1)])):
                    if with_mem:
                        got = set(x for x in got if x.is_id())
                        want = set(x for x in want if x.is_id())
                    if got != want:
                        miss = want - got
                        vs.append(violation("liveness:%s:%s%s" % ("missing" if miss else "extra", kind, "/mem-alphabet" if with_mem else ""),
                                            "%s: live-%s of B%d[%d]: got {%s}, path-based {%s}" % (
                                                desc, nm, bi, i, ",".join(sorted(map(str, got))), ",".join(sorted(map(str, want)))), case))
                        done = True
                        break
                if done:
                    break
            if done:
                break
    except Exception as e:
        vs.append(violation("liveness:raise:%s:%s" % (type(e).__name__, kind), "%s: %r" % (desc, e), case))
    return vs


class _SkipRD(Exception):
    pass


def _fmt(d):
    return "{%s}" % ", ".join("%s:%s" % (k, sorted(v)) for k, v in sorted(d.items(), key=lambda kv: str(kv[0])))


def nontrivial(shape, body_idx, alphabet):
    preds = {}
    for i, s in enumerate(shape):
        for j in s:
            preds[j] = preds.get(j, 0) + 1
    if any(v > 1 for v in preds.values()) or not irgen.shape_is_loop_free(shape):
        return True
    return sum(len(b) for b in body_idx) >= 2


def _shard(args):
    n, maxlen, alphabet, lo, hi = args[:5]
    extra = len(args) > 5 and args[5]
    shapes = extra_shapes(n) if extra else irgen.shapes(n)
    bl = irgen.bodies(alphabet, maxlen)
    cnt = nt = 0
    vs = []
    sample = None
    sigs = {}
    for si in range(lo, hi):
        shape = shapes[si]
        for body_idx in itertools.product(bl, repeat=len(shape)):
            cond_idx = tuple(0 for _ in shape)
            for end_const in ((False, True) if irgen.shape_has_exit(shape) and not extra else (False,)):
                cnt += 1
                if nontrivial(shape, body_idx, alphabet):
                    nt += 1
                for v in check_graph(si, n, body_idx, cond_idx, alphabet, end_const, extra):
                    sigs[v["sig"]] = sigs.get(v["sig"], 0) + 1
                    if sigs[v["sig"]] <= 3:
                        vs.append(v)
                if sample is None and nontrivial(shape, body_idx, alphabet) and len(body_idx[0]) > 0:
                    sample = irgen.describe(shape, body_idx, cond_idx, alphabet, CONDS)
    return cnt, nt, vs, sample, sigs


def run(ctx):
    if ctx.quick:
        plan = [(1, 2, ALPHABET_Q), (2, 1, ALPHABET_Q), (3, 1, ALPHABET_T), (1, 2, ALPHABET_M), (2, 1, ALPHABET_M)]
    else:
        plan = [(1, 3, ALPHABET_Q), (2, 2, ALPHABET_Q), (3, 1, ALPHABET_Q), (4, 1, ["a=b", "a=a+1", "r=a", "zf=a==b"]),
                (1, 3, ALPHABET_M), (2, 2, ALPHABET_M), (3, 1, ALPHABET_M)]
    shards = []
    for n, maxlen, alphabet in plan:
        ns = len(irgen.shapes(n))
        step = max(1, ns // 64)
        for lo in range(0, ns, step):
            shards.append((n, maxlen, alphabet, lo, min(ns, lo + step)))
    # graphs with a cyclic region that no head reaches
    if ctx.quick:
        xplan = [(1, 1, ALPHABET_T), (2, 1, ["a=b", "a=a+1", "r=a", "zf=a==b"])]
    else:
        xplan = [(1, 2, ALPHABET_T), (2, 1, ALPHABET_Q), (3, 1, ["a=b", "r=a", "zf=a==b"])]
    for n, maxlen, alphabet in xplan:
        ns = len(extra_shapes(n))
        step = max(1, ns // 32)
        for lo in range(0, ns, step):
            shards.append((n, maxlen, alphabet, lo, min(ns, lo + step), True))
    res = ctx.pmap(_shard, shards)
    sigcount = {}
    for r in res:
        ctx.add_violations(r[2])
        for k, v in r[4].items():
            sigcount[k] = sigcount.get(k, 0) + v
    return {
        "evaluations": sum(r[0] for r in res),
        "distinct_nontrivial": sum(r[1] for r in res),
        "analyses_per_graph": ["ReachingDefinitions", "DiGraphDefUse", "DiGraphLivenessIRA"],
        "violating_graphs_by_signature": sigcount,
        "samples": [r[3] for r in res if r[3]][:5],
        "exhaustive": True,
        "bounds": {"plan(blocks,max_assignments,alphabet)": [[n, l, a] for n, l, a in plan],
                   "plan_with_unreachable_cyclic_region(main blocks,max_assignments,alphabet)": [[n, l, a] for n, l, a in xplan],
                   "conditions": CONDS},
    }


def replay(case):
    return check_graph(case["shape"], case["n"], tuple(tuple(b) for b in case["bodies"]), tuple(case["conds"]),
                       list(case["alphabet"]), case["end_const"], bool(case.get("extra")))
