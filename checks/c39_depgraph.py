"""C39 - dependency-graph slices are faithful to the program.

Engine E2 over the loop-free part of the irgen lattice (every acyclic CFG shape with <= N blocks; bodies of <= L
assignments from an ordered alphabet over registers, two stack cells and a read through a register pointer; branch
conditions on a register, a flag, a comparison and a stack cell).  For every graph, every block, every line of the block (the IRDst line included),
every target element of {a, b, r, @[sp+4]} the real

    DependencyGraph(ircfg, implicit=False / True).get(block, {element}, line, {head})

is called and EVERY returned solution is judged.  (get() keeps its pending states in a set of objects hashed by
identity, so which of several equivalent states is expanded first is unspecified: the set's pop() is made deterministic
and graphs with a join are run in both extreme orders.)

Values (both modes).  `history` (target block first) gives the block sequence P.  The reference value of the element
is obtained by executing the FULL blocks of P in order (the target block up to, not including, the target line) with
the parallel-assignment semantics of mc/irinterp / mc/refsem from a concrete state S, and reading the element in the
resulting state.  Against it, for every state S of the lattice:
  (A) the expression returned by `solution.emul(lifter, ctx=regs_init)` evaluated by refsem under S;
  (B) the element read after executing, by the same reference semantics, ONLY the assignments named by
      `solution.relevant_nodes` (node (block, element, line) -> the assignment to element at that line), along P.

Multi-leaf IRDst (implicit mode).  mc/irgen only builds flat conditionals `c ? j : k`; a further family replaces the
head block's IRDst by a nested conditional, `c1 ? A : (c2 ? B : C)` or `c1 ? (c2 ? A : B) : C`, over every triple of
successors that is not constant: one successor is then named by SEVERAL leaves (and with four blocks the head also
dispatches three ways). The state lattice reaches every leaf (c1 != 0; c1 == 0, c2 != 0; c1 == 0, c2 == 0).

Path constraints (implicit mode).  While `emul` runs, the translator and the z3 module seen by depgraph.py are wrapped
so that the And/Or tree of the constraints it adds to its solver is recorded together with the miasm expression of
every leaf (the z3 terms themselves are unchanged).  For every S the recorded tree is evaluated (leaves by refsem,
And/Or in Python) and compared with the reference predicate "mc/irinterp, started at the first block of P with S,
visits exactly the blocks of P, in order".  z3 is code under test here: `is_satisfiable == False` must mean that no
state of the lattice follows P, and the model returned by `constraints` (registers, and the bytes of the stack cells)
given to mc/irinterp must follow P.
"""
import itertools
import sys

from mc import adaptive, irgen, irinterp, refsem
from mc.runner import violation

PROP = "C39"
LEVEL = "exploration"
ENGINE = "enum"
RULE = ("complete product: acyclic CFG shapes (<= N blocks, out-degree <= 2, every block reachable) x bodies (<= L assignments "
        "per block from an ordered alphabet over registers and stack cells) x branch conditions x every (block, line, element) "
        "target with element in {a, b, r, @[sp+4]} x every solution returned, each judged under every state of the register x "
        "stack-cell lattice; distinct = distinct (graph, mode, target, solution history); non-trivial = the solution's slice "
        "contains at least one assignment (explicit mode) / the path constraints separate the lattice: some state follows the "
        "history and some state does not (implicit mode)")
LEVEL_TEXT = ("Bounded-exhaustive enumeration of small acyclic IR graphs through the real backward tracking, slicing, slice "
              "emulation and path-constraint generation; the values and the path predicate are decided by an independent concrete "
              "interpreter over a complete small state lattice, the solver's verdict and model are replayed concretely. The tracking "
              "is generic in the graph shape and the assignment kind: a dependency lost across a join, a parallel assignment, a "
              "memory cell or a branch shows on graphs of 1-4 blocks.")
LEVEL_NOTE = ("Trusted: mc/irinterp.py + mc/refsem.py, mc/irgen.py, the ~40 lines here executing assignment blocks along a forced "
              "block sequence. depgraph.py's names `Translator` and `z3` are wrapped during emul() to record the constraint tree "
              "(observation only; the z3 terms and the solver are the real ones). Memory is tracked syntactically by the analysis "
              "(its documented design), so the alphabet keeps the stack pointer constant, writes memory only through the two "
              "disjoint cells @32[sp+4], @32[sp+8] and reads it through them or through @32[a] (pointer dependency, never an alias): "
              "with a moving stack pointer or overlapping partial writes the slices are not faithful by design; follow_mem / "
              "follow_call are left at their defaults (True); lifted x86 graphs are not part of this check (the stack pointer "
              "moves in them).")
TECHNIQUE = "bounded-exhaustive enumeration of acyclic IR graphs; reference-interpreter differential of slice vs full blocks and of path constraints vs concrete path"
ASSUMPTIONS = ["the stack pointer is not written; memory is only written through the disjoint cells @32[sp+4] and @32[sp+8] and only read "
               "through them or through @32[a], which never aliases them in the state lattice (DependencyGraph tracks memory expressions "
               "syntactically)",
               "every block of the graph has an offset in the LocationDB (irgen gives block i the offset 0x10*i)"]

# ordered simplest first
ALPHA_WIDE = ["a=b", "b=a", "a=a+1", "a=0", "b=1", "c=a+b", "a=c", "swap", "a=b,c=a", "r=a", "r=b", "zf=a==b",
              "a=@[sp+4]", "b=@[sp+4]", "@[sp+4]=a", "@[sp+4]=b", "@[sp+8]=1", "b=@[sp+8]", "r=call(a)", "b=@[a]"]
ALPHA_14 = ["a=b", "b=a", "a=a+1", "b=1", "c=a+b", "a=c", "swap", "a=b,c=a", "r=a", "a=@[sp+4]", "b=@[sp+4]", "@[sp+4]=a",
            "@[sp+4]=b", "b=@[a]"]
ALPHA_10 = ["a=b", "a=a+1", "b=1", "swap", "r=a", "zf=a==b", "a=@[sp+4]", "@[sp+4]=a", "@[sp+4]=b", "b=@[sp+8]"]
ALPHA_7 = ["a=b", "a=a+1", "b=1", "swap", "r=a", "a=@[sp+4]", "@[sp+4]=b"]
ALPHA_5 = ["a=b", "swap", "r=a", "a=@[sp+4]", "@[sp+4]=b"]
ALPHA_4 = ["a=b", "swap", "a=@[sp+4]", "@[sp+4]=b"]
ALPHA_3 = ["a=b", "swap", "@[sp+4]=a"]
ALPHA_2 = ["a=b", "@[sp+4]=a"]
IMPL_6 = ["a=b", "a=0", "a=a+1", "zf=a==b", "@[sp+4]=a", "a=@[sp+4]"]
IMPL_5 = ["a=b", "a=0", "a=a+1", "@[sp+4]=a", "a=@[sp+4]"]
IMPL_4 = ["a=b", "a=0", "zf=a==b", "@[sp+4]=a"]
IMPL_3 = ["a=0", "zf=a==b", "@[sp+4]=a"]
IMPL_2 = ["a=b", "zf=a==b"]
# multi-leaf head IRDst (nested conditional naming one successor on several leaves / three-way dispatch)
NEST_2 = ["a=0", "b=a"]
NEST_1 = ["a=0"]
NEST_ZF = ["a=0", "zf=a==b"]
NESTED_Q = {"pairs": [["a", "b"], ["zf", "a"]], "elements": ["a"]}
NESTED_T = {"pairs": [["a", "b"], ["@[sp+4]", "b"], ["a", "a"]], "elements": ["a"]}
NESTED_T4 = {"pairs": [["a", "b"], ["b", "zf"]], "elements": ["a"]}
CONDS_ALL = ["a", "zf", "a==b", "a<u2", "@[sp+4]"]
CONDS_4 = ["a", "zf", "a<u2", "@[sp+4]"]
CONDS_ONE = ["a"]

# (mode, N, L, alphabet, conds); explicit mode does not look at branch conditions: one condition
PLAN_Q = [
    ("explicit", 1, 2, ALPHA_WIDE, CONDS_ONE),
    ("explicit", 2, 1, ALPHA_WIDE, CONDS_ONE),
    ("explicit", 2, 2, ALPHA_4, CONDS_ONE),
    ("explicit", 3, 1, ALPHA_4, CONDS_ONE),
    ("implicit", 1, 2, IMPL_4, CONDS_ONE),
    ("implicit", 3, 1, IMPL_3, ["@[sp+4]"]),
    ("implicit", 3, 1, NEST_1, ["a"], NESTED_Q),
]
PLAN_T = [
    ("explicit", 1, 3, ALPHA_14, CONDS_ONE),
    ("explicit", 1, 2, ALPHA_WIDE, CONDS_ONE),
    ("explicit", 2, 1, ALPHA_WIDE, CONDS_ONE),
    ("explicit", 2, 2, ALPHA_7, CONDS_ONE),
    ("explicit", 3, 1, ALPHA_10, CONDS_ONE),
    ("explicit", 3, 2, ALPHA_2, CONDS_ONE),
    ("explicit", 4, 1, ALPHA_3, CONDS_ONE),
    ("implicit", 1, 2, IMPL_6, CONDS_ONE),
    ("implicit", 2, 2, IMPL_4, CONDS_ONE),
    ("implicit", 3, 1, IMPL_4, CONDS_ALL),
    ("implicit", 3, 1, IMPL_5, ["a", "@[sp+4]"]),
    ("implicit", 3, 2, IMPL_2, ["zf"]),
    ("implicit", 4, 1, IMPL_2, ["zf"]),
    ("implicit", 3, 1, NEST_2, ["a"], NESTED_Q),
    ("implicit", 3, 1, NEST_ZF, ["a"], NESTED_T),
    ("implicit", 4, 0, NEST_2, ["a"], NESTED_T4),
]

VALS = [0, 1, 2, 0xFFFFFFFF]
MEMS = ["pattern", "zero"]
SP0 = 0x1000
ELEMENTS = ["a", "b", "r", "@[sp+4]"]

_IT = [None]


def interp():
    if _IT[0] is None:
        _IT[0] = irinterp.Interp(None)
    return _IT[0]


# ------------------------------------------------------------------ reference execution

def cellmem(kind):
    if kind == "pattern":
        return {}
    mem = {}
    for base in (SP0 + 4, SP0 + 8):
        for i in range(4):
            mem[base + i] = 0
    return mem


def states(A, used_ids, uses_mem, uses_zf):
    av = VALS if A.a in used_ids else [1]
    bv = VALS if A.b in used_ids else [2]
    mv = MEMS if uses_mem else ["pattern"]
    zv = [0, 1] if uses_zf else [0]
    out = []
    for a, b, mk, z in itertools.product(av, bv, mv, zv):
        regs = {A.a: a, A.b: b, A.c: 3, A.r: 7, A.sp: SP0, A.zf: z, A.pc: 0, A.END: 0xDEAD0000, A.IRDst: 0}
        for x in list(regs):
            if x in A.inits:
                regs[A.inits[x]] = regs[x]
        out.append((regs, cellmem(mk), "{a=%#x,b=%#x,zf=%d,sp=%#x,cells=%s}" % (a, b, z, SP0, mk)))
    return out


def graph_reads(ircfg):
    ids = set()
    mem = False
    for blk in ircfg.blocks.values():
        for ab in blk:
            for dst, src in ab.items():
                for x in src.get_r(mem_read=True):
                    if x.is_id():
                        ids.add(x)
                    elif x.is_mem():
                        mem = True
    return ids, mem


def exec_lines(it, lines, regs, mem):
    """lines: list of dict dst -> src, executed in order, each one as a parallel assignment. regs/mem are updated."""
    def memf(ps, a):
        b = mem.get(a)
        return it.default_mem(a) if b is None else b
    for line in lines:
        newregs = []
        newmem = []
        for dst, src in line.items():
            val = it.ev(src, regs, memf)
            if dst.is_mem():
                newmem.append((it.ev(dst.ptr, regs, memf), dst.size, val))
            else:
                newregs.append((dst, val))
        for dst, val in newregs:
            regs[dst] = val
        for addr, size, val in sorted(newmem):
            for i in range(size // 8):
                mem[(addr + i) & 0xFFFFFFFF] = (val >> (8 * i)) & 0xFF


def read_element(it, element, regs, mem):
    def memf(ps, a):
        b = mem.get(a)
        return it.default_mem(a) if b is None else b
    return it.ev(element, regs, memf)


def full_lines(g, path, line_nb):
    """The complete AssignBlocks of the blocks of `path` (block indexes), the last block cut before line_nb."""
    out = []
    for k, bi in enumerate(path):
        blk = g.ircfg.blocks[g.locs[bi]]
        last = k == len(path) - 1
        for i, ab in enumerate(blk):
            if last and i >= line_nb:
                break
            out.append(dict(ab.items()))
    return out


def node_lines(g, path, line_nb, nodes):
    """Only the assignments named by dependency nodes, in program order along `path`."""
    per = {}
    for nd in nodes:
        per.setdefault((nd.loc_key, nd.line_nb), set()).add(nd.element)
    out = []
    for k, bi in enumerate(path):
        lk = g.locs[bi]
        blk = g.ircfg.blocks[lk]
        last = k == len(path) - 1
        for i, ab in enumerate(blk):
            if last and i >= line_nb:
                break
            els = per.get((lk, i))
            if not els:
                continue
            line = {}
            for dst, src in ab.items():
                if dst in els:
                    line[dst] = src
            if line:
                out.append(line)
    return out


# ------------------------------------------------------------------ recording of the constraint tree

class _Rec(object):
    def __init__(self):
        self.leaf = {}
        self.node = {}
        self.keep = []


class _RecTranslator(object):
    def __init__(self, real, rec):
        self._real = real
        self._rec = rec

    def from_expr(self, expr):
        t = self._real.from_expr(expr)
        self._rec.leaf[t.get_id()] = expr
        self._rec.keep.append(t)
        return t

    def __getattr__(self, name):
        return getattr(self._real, name)


class _TranslatorFactory(object):
    def __init__(self, real_cls, rec):
        self._real_cls = real_cls
        self._rec = rec
        self.last = None

    def to_language(self, lang, *args, **kwargs):
        self.last = self._real_cls.to_language(lang, *args, **kwargs)
        return _RecTranslator(self.last, self._rec)


class _Z3Proxy(object):
    def __init__(self, z3, rec):
        self._z3 = z3
        self._rec = rec

    def And(self, *args):
        t = self._z3.And(*args)
        self._rec.node[t.get_id()] = ("and", [x.get_id() for x in args])
        self._rec.keep.append(t)
        return t

    def Or(self, *args):
        t = self._z3.Or(*args)
        self._rec.node[t.get_id()] = ("or", [x.get_id() for x in args])
        self._rec.keep.append(t)
        return t

    def __getattr__(self, name):
        return getattr(self._z3, name)


def emul_recorded(sol, lifter, ctx):
    """Run the real DependencyResultImplicit.emul while recording the constraint tree it hands to its solver."""
    import miasm.analysis.depgraph as dgm
    import z3
    rec = _Rec()
    old_tr, old_z3 = dgm.Translator, dgm.z3
    fac = _TranslatorFactory(old_tr, rec)
    dgm.Translator = fac
    dgm.z3 = _Z3Proxy(z3, rec)
    try:
        vals = sol.emul(lifter, ctx=ctx)
    finally:
        dgm.Translator, dgm.z3 = old_tr, old_z3
    roots = [x.get_id() for x in sol._solver.assertions()]
    rec.keep.append(sol._solver)
    return vals, rec, roots, fac.last


class HarnessError(Exception):
    pass


def eval_tree(it, rec, tid, regs, memf):
    nd = rec.node.get(tid)
    if nd is not None:
        kind, kids = nd
        if kind == "and":
            return all(eval_tree(it, rec, k, regs, memf) for k in kids)
        return any(eval_tree(it, rec, k, regs, memf) for k in kids)
    e = rec.leaf.get(tid)
    if e is None:
        raise HarnessError("constraint term without a recorded origin")
    if not e.is_assign():
        raise HarnessError("constraint leaf is not an equality: %s" % e)
    return it.ev(e.dst, regs, memf) == it.ev(e.src, regs, memf)


def tree_text(rec, tid):
    nd = rec.node.get(tid)
    if nd is not None:
        return "%s(%s)" % (nd[0].capitalize(), ", ".join(tree_text(rec, k) for k in nd[1]))
    e = rec.leaf.get(tid)
    return "?" if e is None else "%s == %s" % (e.dst, e.src)


# ------------------------------------------------------------------ deterministic order of the pending states

class _OrderedPopSet(set):
    """A set whose pop() is deterministic when it holds DependencyState objects (they are hashed by identity):
    the state with the smallest / largest history (sequence of location keys) comes out first. Any order is a legal
    behaviour of the original set; everything else is the builtin set."""
    policy = "min"

    def pop(self):
        if self and all(hasattr(x, "history") for x in self):
            def key(st):
                return [lk.key for lk in st.history]
            x = min(self, key=key) if _OrderedPopSet.policy == "min" else max(self, key=key)
            self.remove(x)
            return x
        return set.pop(self)


def get_solutions(dg, loc_key, element, line_nb, head, policy):
    import miasm.analysis.depgraph as dgm
    _OrderedPopSet.policy = policy
    dgm.set = _OrderedPopSet          # module-level name shadowing the builtin inside depgraph.py only
    try:
        return list(dg.get(loc_key, {element}, line_nb, {head}))
    finally:
        del dgm.set


# ------------------------------------------------------------------ judging one graph

def features(body_idx, alphabet, element):
    used = set(alphabet[k] for b in body_idx for k in b)
    tags = []
    if any("=@" in x for x in used):
        tags.append("memread")
    if any(x.startswith("@") for x in used):
        tags.append("memwrite")
    if any("," in x or x == "swap" for x in used):
        tags.append("parallel")
    if any("call" in x for x in used):
        tags.append("call")
    return ("mem-target" if element.startswith("@") else "reg-target") + ":" + ("+".join(tags) or "regs")


def slice_features(lines, element):
    """Skeleton of a solution: kind of target + what its slice contains."""
    tags = []
    if any(x.is_mem() for l in lines for src in l.values() for x in src.get_r(mem_read=True)):
        tags.append("memread")
    if any(d.is_mem() for l in lines for d in l):
        tags.append("memwrite")
    if any(len(l) > 1 for l in lines):
        tags.append("parallel")
    if any(x.is_function_call() for l in lines for src in l.values() for x in [src]):
        tags.append("call")
    return ("mem-target" if element.startswith("@") else "reg-target") + ":slice=" + ("+".join(tags) or ("regs" if lines else "empty"))


def element_expr(A, name):
    m = irgen.E()
    return {"a": A.a, "b": A.b, "r": A.r, "@[sp+4]": m.ExprMem(A.sp + m.ExprInt(4, 32), 32)}[name]


def nested_dst(g, dst0):
    """IRDst expression of a multi-leaf head: dst0 = [form, c1, c2, A, B, C] (block indexes A, B, C)
         form "tail": c1 ? A : (c2 ? B : C)        form "front": c1 ? (c2 ? A : B) : C"""
    m = irgen.E()
    form, c1, c2, ta, tb, tc = dst0
    (_, e1), (_, e2) = irgen.cond_alphabet(g.arch, [c1, c2])
    la, lb, lc = [m.ExprLoc(g.locs[t], 32) for t in (ta, tb, tc)]
    if form == "tail":
        return m.ExprCond(e1, la, m.ExprCond(e2, lb, lc))
    return m.ExprCond(e1, m.ExprCond(e2, la, lb), lc)


def nested_text(dst0):
    form, c1, c2, ta, tb, tc = dst0
    if form == "tail":
        return "%s ? %d : (%s ? %d : %d)" % (c1, ta, c2, tb, tc)
    return "%s ? (%s ? %d : %d) : %d" % (c1, c2, ta, tb, tc)


def check_graph(mode, n, shape_idx, body_idx, cond_idx, alphabet, conds, only=None, dst0=None, elements=None):
    """Return (violations, info). `only` = (block, line, element name, order) restricts to one target (replay).
    dst0: the head block's IRDst is replaced by a nested conditional (see nested_dst) - several leaves may name the same
    successor; elements: target elements (default ELEMENTS)."""
    from miasm.analysis.depgraph import DependencyGraph
    shape = irgen.shapes(n)[shape_idx]
    g = irgen.build(shape, body_idx, cond_idx, alphabet, conds)
    A = g.arch
    it = interp()
    desc = irgen.describe(shape, body_idx, cond_idx, alphabet, conds)
    if dst0 is not None:
        from miasm.ir.ir import IRBlock, AssignBlock
        head = g.ircfg.blocks[g.locs[0]]
        newhead = IRBlock(g.loc_db, g.locs[0], list(head.assignblks[:-1]) + [AssignBlock({A.IRDst: nested_dst(g, dst0)})])
        ircfg = g.lifter.new_ircfg()
        for i, lk in enumerate(g.locs):
            ircfg.add_irblock(newhead if i == 0 else g.ircfg.blocks[lk])
        g.ircfg = ircfg
        shape = (tuple(sorted(set(dst0[3:]))),) + tuple(shape[1:])
        parts = desc.split(" | ")
        parts[0] = parts[0].split(" -> ")[0] + " -> " + nested_text(dst0)
        desc = " | ".join(parts)
    elements = list(elements) if elements is not None else ELEMENTS
    implicit = mode == "implicit"
    info = {"targets": 0, "solutions": 0, "nontrivial": 0, "state_evals": 0, "empty_slices": 0, "emul_raised": 0,
            "unsat_solutions": 0, "sat_solutions": 0, "models_replayed": 0, "solutions_all_follow": 0, "solutions_none_follow": 0,
            "solutions_some_follow": 0, "solutions_history_not_from_head": 0, "max_solutions_per_target": 0, "graphs_with_join": 0,
            "states_following": 0, "states_not_following": 0, "targets_without_solution": 0,
            "constraint_sets_judged": 0, "constraint_sets_repeated": 0}
    used_ids, uses_mem = graph_reads(g.ircfg)
    uses_zf = A.zf in used_ids
    sts = states(A, used_ids, True, uses_zf)      # the target @[sp+4] always reads memory
    idx_of = {l: i for i, l in enumerate(g.locs)}
    vs = []
    sigs_seen = set()
    dg = DependencyGraph(g.ircfg, implicit=implicit)
    full_cache = {}
    follow_cache = {}
    cons_seen = set()

    def add(sig, what, case):
        if sig in sigs_seen:
            return
        sigs_seen.add(sig)
        vs.append(violation(sig, what, case))

    def full_states(path, line_nb):
        key = (path, line_nb)
        if key not in full_cache:
            lines = full_lines(g, path, line_nb)
            res = []
            for regs, mem, _ in sts:
                r, mm = dict(regs), dict(mem)
                exec_lines(it, lines, r, mm)
                res.append((r, mm))
            full_cache[key] = res
        return full_cache[key]

    def follows(path):
        if path not in follow_cache:
            res = []
            want = [g.locs[i] for i in path]
            for regs, mem, _ in sts:
                r = it.run(g.ircfg, want[0], regs, mem, fuel=n + 2, irdst=A.IRDst)
                res.append(r.path[:len(want)] == want)
            follow_cache[path] = res
        return follow_cache[path]

    def judge(bi, line_nb, ename, policy):
        element = element_expr(A, ename)
        info["targets"] += 1
        case = {"mode": mode, "n": n, "shape": shape_idx, "bodies": body_idx, "conds": cond_idx, "alphabet": alphabet,
                "condnames": conds, "target": [bi, line_nb, ename], "order": policy}
        if dst0 is not None:
            case["dst0"] = list(dst0)
            case["elements"] = elements
        kind = features(body_idx, alphabet, ename)
        tdesc = "%s; target %s before line %d of B%d (%s mode%s)" % (desc, ename, line_nb, bi, mode, ", pending states taken %s-history first" % policy if len(policies) > 1 else "")
        try:
            sols = get_solutions(dg, g.locs[bi], element, line_nb, g.head, policy)
        except Exception as e:
            add("%s:get:raise:%s:%s" % (mode, type(e).__name__, kind), "%s: DependencyGraph.get raised %r" % (tdesc, e), case)
            return
        if not sols:
            info["targets_without_solution"] += 1
            add("%s:get:no-solution:%s" % (mode, kind), "%s: no solution returned although the target is reachable from the head" % tdesc, case)
            return
        info["max_solutions_per_target"] = max(info["max_solutions_per_target"], len(sols))
        hist_seen = set()
        for sol in sols:
            info["solutions"] += 1
            path = tuple(idx_of[l] for l in reversed(sol.history))
            ptxt = "->".join("B%d" % i for i in path)
            # the history must be a path of the graph ending in the target block
            if path[-1] != bi or any(path[k + 1] not in shape[path[k]] for k in range(len(path) - 1)):
                add("%s:history-not-a-path:%s" % (mode, kind), "%s: history %s is not a path of the graph ending in the target block" % (tdesc, ptxt), case)
                continue
            if path[0] != 0:
                info["solutions_history_not_from_head"] += 1
            nodes = sol.relevant_nodes
            slice_lines = node_lines(g, path, line_nb, nodes)
            if not slice_lines:
                info["empty_slices"] += 1
            kind = slice_features(slice_lines, ename)      # from here on the signature speaks about the solution's slice
            # ---- (A) emul
            rec = roots = tr = None
            try:
                if implicit:
                    vals, rec, roots, tr = emul_recorded(sol, g.lifter, dict(A.inits))
                else:
                    vals = sol.emul(g.lifter, ctx=dict(A.inits))
                got_expr = vals[element]
            except HarnessError:
                raise
            except Exception as e:
                info["emul_raised"] += 1
                add("%s:emul:raise:%s:%s" % (mode, type(e).__name__, kind), "%s: solution with history %s: emul raised %r" % (tdesc, ptxt, e), case)
                continue
            fulls = full_states(path, line_nb)
            bad = False
            for k, (regs, mem, stxt) in enumerate(sts):
                info["state_evals"] += 1
                fr, fm = fulls[k]
                want = read_element(it, element, fr, fm)
                try:
                    got = read_element(it, got_expr, regs, mem)
                except (KeyError, refsem.Unsupported) as e:
                    add("%s:emul-value-not-evaluable:%s" % (mode, kind), "%s: history %s: emul returned %s = %s which cannot be evaluated on the inputs (%r)" % (
                        tdesc, ptxt, ename, got_expr, e), case)
                    bad = True
                    break
                if got != want:
                    add("%s:emul-value-differs:%s" % (mode, kind),
                        "%s: history %s: the full blocks give %s = %#x, emul of the slice gives %s = %#x from state %s; slice: %s" % (
                            tdesc, ptxt, ename, want, got_expr, got, stxt, _lines_text(slice_lines)), case)
                    bad = True
                    break
                # ---- (B) the relevant assignments only, by the reference semantics
                r2, m2 = dict(regs), dict(mem)
                exec_lines(it, slice_lines, r2, m2)
                got2 = read_element(it, element, r2, m2)
                if got2 != want:
                    add("%s:relevant-nodes-value-differs:%s" % (mode, kind),
                        "%s: history %s: the full blocks give %s = %#x, executing only the relevant assignments gives %#x from state %s; slice: %s" % (
                            tdesc, ptxt, ename, want, got2, stxt, _lines_text(slice_lines)), case)
                    bad = True
                    break
            if not implicit:
                if slice_lines and path not in hist_seen:
                    info["nontrivial"] += 1
                hist_seen.add(path)
                continue
            # ---- path constraints
            fol = follows(path)
            nf = sum(1 for x in fol if x)
            info["states_following"] += nf
            info["states_not_following"] += len(fol) - nf
            if nf == len(fol):
                info["solutions_all_follow"] += 1
            elif nf == 0:
                info["solutions_none_follow"] += 1
            else:
                info["solutions_some_follow"] += 1
                if path not in hist_seen:
                    info["nontrivial"] += 1
            hist_seen.add(path)
            ctxt = " AND ".join(tree_text(rec, t) for t in roots) or "(none)"
            # identical (history, constraint tree) pairs are judged once per graph
            ckey = (path, ctxt)
            if ckey in cons_seen:
                info["constraint_sets_repeated"] += 1
                continue
            cons_seen.add(ckey)
            info["constraint_sets_judged"] += 1
            for k, (regs, mem, stxt) in enumerate(sts):
                def memf(ps, a, mem=mem):
                    b = mem.get(a)
                    return it.default_mem(a) if b is None else b
                try:
                    holds = all(eval_tree(it, rec, t, regs, memf) for t in roots)
                except (KeyError, refsem.Unsupported) as e:
                    add("implicit:constraint-not-evaluable:%s" % kind, "%s: history %s: constraints %s cannot be evaluated on the inputs (%r)" % (tdesc, ptxt, ctxt, e), case)
                    break
                if holds and not fol[k]:
                    add("implicit:constraints-hold-but-execution-leaves-history:%s" % kind,
                        "%s: history %s: state %s satisfies the path constraints %s but concrete execution from B%d does not follow the history" % (
                            tdesc, ptxt, stxt, ctxt, path[0]), case)
                    break
                if fol[k] and not holds:
                    add("implicit:execution-follows-history-but-constraints-fail:%s" % kind,
                        "%s: history %s: concrete execution from state %s follows the history but the path constraints %s do not hold" % (
                            tdesc, ptxt, stxt, ctxt), case)
                    break
            # ---- the solver's verdict and model, replayed concretely
            try:
                model = sol.constraints
            except ValueError:
                model = None
            except Exception as e:
                add("implicit:solver:raise:%s:%s" % (type(e).__name__, kind), "%s: history %s: is_satisfiable/constraints raised %r" % (tdesc, ptxt, e), case)
                continue
            if model is None:
                info["unsat_solutions"] += 1
                if nf:
                    k = fol.index(True)
                    add("implicit:unsat-but-a-state-follows-history:%s" % kind,
                        "%s: history %s: is_satisfiable is False (constraints %s) but concrete execution from state %s follows the history" % (
                            tdesc, ptxt, ctxt, sts[k][2]), case)
                continue
            info["sat_solutions"] += 1
            try:
                regs, mem, mtxt = model_state(A, model, tr)
            except Exception as e:
                add("implicit:model:raise:%s:%s" % (type(e).__name__, kind), "%s: history %s: reading the model raised %r" % (tdesc, ptxt, e), case)
                continue
            info["models_replayed"] += 1
            want = [g.locs[i] for i in path]
            r = it.run(g.ircfg, want[0], regs, mem, fuel=n + 2, irdst=A.IRDst)
            if r.path[:len(want)] != want:
                add("implicit:model-does-not-follow-history:%s" % kind,
                    "%s: history %s: the solver's model %s (constraints %s) drives concrete execution through %s" % (
                        tdesc, ptxt, mtxt, ctxt, "->".join("B%d" % idx_of[l] for l in r.path)), case)

    # DependencyGraph.get keeps its pending states in a set of objects hashed by identity: which of several equivalent
    # states is expanded first (hence which history stands for a solution) is unspecified. Both extreme orders are run
    # on graphs with a join, so that the verdict does not depend on memory addresses.
    preds = {}
    for i, succ in enumerate(shape):
        for j in succ:
            preds[j] = preds.get(j, 0) + 1
    policies = ["min", "max"] if any(v > 1 for v in preds.values()) else ["min"]
    info["graphs_with_join"] = 1 if len(policies) > 1 else 0
    for bi in range(n):
        blk = g.ircfg.blocks[g.locs[bi]]
        for line_nb in range(len(blk)):
            for ename in elements:
                for policy in policies:
                    if only is not None and (bi, line_nb, ename, policy) != tuple(only):
                        continue
                    judge(bi, line_nb, ename, policy)
    return vs, info


def model_state(A, model, translator):
    """Concrete state (registers + the bytes of the two stack cells) described by a z3 model of the constraints."""
    import z3
    regs = {}
    txt = []
    for x in A.regs:
        v = model.eval(z3.BitVec(str(A.inits[x]), x.size), model_completion=True).as_long()
        regs[x] = v
        regs[A.inits[x]] = v
        txt.append("%s=%#x" % (x, v))
    regs[A.pc] = regs[A.inits[A.pc]] = 0
    regs[A.END] = 0xDEAD0000
    regs[A.IRDst] = 0
    mem = {}
    arr = translator._mem.get_mem_array(32)
    sp = regs[A.sp]
    for off in range(4, 12):
        addr = (sp + off) & 0xFFFFFFFF
        mem[addr] = model.eval(arr[z3.BitVecVal(addr, 32)], model_completion=True).as_long()
    txt.append("@32[sp+4]=%#x" % sum(mem[(sp + 4 + i) & 0xFFFFFFFF] << (8 * i) for i in range(4)))
    return regs, mem, "{" + ",".join(txt) + "}"


def _lines_text(lines):
    return " ; ".join(", ".join("%s = %s" % (d, s) for d, s in sorted(l.items(), key=lambda kv: str(kv[0]))) for l in lines) or "(empty)"


# ------------------------------------------------------------------ sharding

def nested_variants(n, nested):
    """Every multi-leaf head of the family: both forms x condition pairs x target triples over the blocks 1..n-1 that are
    not all equal (a duplicated successor, or - with >= 3 other blocks - a three-way dispatch)."""
    out = []
    for form in ("tail", "front"):
        for c1, c2 in nested["pairs"]:
            for t in itertools.product(range(1, n), repeat=3):
                if len(set(t)) > 1:
                    out.append([form, c1, c2] + list(t))
    return out


def _unit(args):
    mode, n, maxlen, alphabet, conds, si, b0 = args[:7]
    nested = args[7] if len(args) > 7 else None
    shape = irgen.shapes(n)[si]
    bl = irgen.bodies(alphabet, maxlen)
    ncond = [len(conds) if len(s) == 2 else 1 for s in shape]
    if nested:
        ncond[0] = 1
        variants = nested_variants(n, nested)
    else:
        variants = [None]
    cnt = 0
    tot = {}
    vs = []
    sigs = {}
    sample = None
    # the body of the head block is fixed by the unit: the other blocks range over every body
    for rest in itertools.product(bl, repeat=n - 1):
        body_idx = (bl[b0],) + rest
        for cond_idx in itertools.product(*[range(k) for k in ncond]):
            for dst0 in variants:
                cnt += 1
                if dst0 is None:
                    v, info = check_graph(mode, n, si, body_idx, cond_idx, alphabet, conds)
                else:
                    v, info = check_graph(mode, n, si, body_idx, cond_idx, alphabet, conds, dst0=dst0, elements=nested["elements"])
                    tot["graphs_with_multi_leaf_irdst"] = tot.get("graphs_with_multi_leaf_irdst", 0) + 1
                for k, x in info.items():
                    if k.startswith("max_"):
                        tot[k] = max(tot.get(k, 0), x)
                    else:
                        tot[k] = tot.get(k, 0) + x
                for x in v:
                    sigs[x["sig"]] = sigs.get(x["sig"], 0) + 1
                    if sigs[x["sig"]] <= 2:
                        vs.append(x)
                if sample is None and info["nontrivial"] and (dst0 is not None or sum(len(b) for b in body_idx) >= 2):
                    sample = "%s: %s%s" % (mode, irgen.describe(shape, body_idx, cond_idx, alphabet, conds),
                                           " [head IRDst = %s]" % nested_text(dst0) if dst0 else "")
    return cnt, tot, vs, sample, sigs, mode


def _size_key(v):
    """Smallest witness first: blocks, assignments, then text."""
    return (v["case"]["n"], sum(len(b) for b in v["case"]["bodies"]), len(v["what"]), v["what"])


def _shard(units):
    """A shard is a list of units (plan entry, shape, body of the head block); few large shards keep the pool's
    dispatch cost negligible on a loaded machine."""
    _z3_path()
    out = {"explicit": [0, {}, [], None, {}], "implicit": [0, {}, [], None, {}]}
    for u in units:
        cnt, tot, vs, sample, sigs, mode = _unit(u)
        o = out[mode]
        o[0] += cnt
        for k, x in tot.items():
            o[1][k] = max(o[1].get(k, 0), x) if k.startswith("max_") else o[1].get(k, 0) + x
        o[2].extend(vs)
        for k, x in sigs.items():
            o[4][k] = o[4].get(k, 0) + x
        if o[3] is None:
            o[3] = sample
    for o in out.values():
        # keep the two smallest witnesses of every signature
        o[2].sort(key=_size_key)
        kept, cnt = [], {}
        for v in o[2]:
            cnt[v["sig"]] = cnt.get(v["sig"], 0) + 1
            if cnt[v["sig"]] <= 2:
                kept.append(v)
        o[2] = kept
    return [(o[0], o[1], o[2], o[3], o[4], mode) for mode, o in sorted(out.items())]


NSHARDS = 32


def make_shards(plan):
    """Deterministic balanced packing (largest unit first into the lightest shard)."""
    units = []
    for entry in plan:
        mode, n, maxlen, alphabet, conds = entry[:5]
        nested = entry[5] if len(entry) > 5 else None
        nb = len(irgen.bodies(alphabet, maxlen))
        for si, shape in enumerate(irgen.shapes(n)):
            if not irgen.shape_is_loop_free(shape):
                continue
            if nested and len(shape[0]) != 2:
                continue        # the head's successors are replaced: one base shape per distinct rest of the graph
            ng = nb ** (n - 1)
            for s in shape[1:] if nested else shape:
                if len(s) == 2:
                    ng *= len(conds)
            paths = 1 + sum(1 for s in shape if len(s) == 2)
            w = ng * n * paths * (3 if mode == "implicit" else 1)
            if nested:
                w = w * len(nested_variants(n, nested)) * len(nested["elements"]) // len(ELEMENTS)
            for b0 in range(nb):
                u = (mode, n, maxlen, alphabet, conds, si, b0) + ((nested,) if nested else ())
                units.append((w * (1 + min(2, len(irgen.bodies(alphabet, maxlen)[b0]))), len(units), u))
    units.sort(key=lambda u: (-u[0], u[1]))
    bins = [[0, i, []] for i in range(NSHARDS)]
    for w, _, u in units:
        b = min(bins, key=lambda x: (x[0], x[1]))
        b[0] += w
        b[2].append(u)
    return [b[2] for b in bins if b[2]], len(units)


DEPS = "/verif/.deps"


def _z3_path():
    """z3 must be importable BEFORE miasm.analysis.depgraph is imported (it swallows the ImportError)."""
    if DEPS not in sys.path:
        sys.path.insert(0, DEPS)


def _preimport(implicit):
    _z3_path()
    import z3
    import miasm.analysis.depgraph
    import miasm.ir.analysis
    import miasm.core.locationdb
    import miasm.ir.translators.z3_ir
    if not hasattr(miasm.analysis.depgraph, "z3"):
        raise RuntimeError("miasm.analysis.depgraph was imported without z3")
    irgen.build(irgen.shapes(1)[0], ((),), (0,), [], ["a"])


def run(ctx):
    plan = PLAN_Q if ctx.quick else PLAN_T
    _preimport(True)
    for n in set(p[1] for p in plan):
        irgen.shapes(n)
    shards, nunits = make_shards(plan)
    parts, schedule = adaptive.amap(ctx, _shard, shards)
    res = [r for part in parts for r in part]
    sigcount = {}
    tot = {"explicit": {}, "implicit": {}}
    graphs = {"explicit": 0, "implicit": 0}
    allv = [v for r in res for v in r[2]]
    # smallest witness first: blocks, assignments, then text length
    allv.sort(key=_size_key)
    ctx.add_violations(allv)
    for r in res:
        graphs[r[5]] += r[0]
        for k, v in r[4].items():
            sigcount[k] = sigcount.get(k, 0) + v
        t = tot[r[5]]
        for k, v in r[1].items():
            if k.startswith("max_"):
                t[k] = max(t.get(k, 0), v)
            else:
                t[k] = t.get(k, 0) + v
    ex, im = tot["explicit"], tot["implicit"]
    samples = [r[3] for r in res if r[3] and r[5] == "explicit"][:3] + [r[3] for r in res if r[3] and r[5] == "implicit"][:3]
    return {
        "evaluations": ex.get("solutions", 0) + im.get("solutions", 0),
        "distinct_nontrivial": ex.get("nontrivial", 0) + im.get("nontrivial", 0),
        "graphs_explicit": graphs["explicit"],
        "graphs_implicit": graphs["implicit"],
        "graphs_with_multi_leaf_head_irdst": im.get("graphs_with_multi_leaf_irdst", 0),
        "targets_x_orders": ex.get("targets", 0) + im.get("targets", 0),
        "graphs_with_a_join_run_in_both_pending_orders": ex.get("graphs_with_join", 0) + im.get("graphs_with_join", 0),
        "explicit_solutions": ex.get("solutions", 0),
        "explicit_solutions_with_nonempty_slice": ex.get("solutions", 0) - ex.get("empty_slices", 0),
        "explicit_max_solutions_per_target": ex.get("max_solutions_per_target", 0),
        "implicit_solutions": im.get("solutions", 0),
        "implicit_max_solutions_per_target": im.get("max_solutions_per_target", 0),
        "implicit_solutions_every_state_follows": im.get("solutions_all_follow", 0),
        "implicit_solutions_no_state_follows": im.get("solutions_none_follow", 0),
        "implicit_solutions_constraints_separate_states": im.get("solutions_some_follow", 0),
        "implicit_state_runs_following_history": im.get("states_following", 0),
        "implicit_state_runs_leaving_history": im.get("states_not_following", 0),
        "implicit_unsat_solutions": im.get("unsat_solutions", 0),
        "implicit_sat_solutions": im.get("sat_solutions", 0),
        "implicit_models_replayed": im.get("models_replayed", 0),
        "solutions_whose_history_stops_before_head": ex.get("solutions_history_not_from_head", 0) + im.get("solutions_history_not_from_head", 0),
        "emul_raised": ex.get("emul_raised", 0) + im.get("emul_raised", 0),
        "state_evaluations": ex.get("state_evals", 0) + im.get("state_evals", 0),
        "violating_targets_by_signature": sigcount,
        "samples": samples,
        "exhaustive": True,
        "schedule": schedule,
        "work_units": nunits,
        "bounds": {"plan(mode,blocks,max_assignments,alphabet,conditions)": [list(p) for p in plan],
                   "shapes": "acyclic only", "elements": ELEMENTS, "heads": "{block 0}",
                   "pending_state_orders": "smallest-history-first; also largest-history-first on graphs with a join",
                   "state_lattice": "a,b in {0,1,2,0xFFFFFFFF} (when read), zf in {0,1} (when read), sp = 0x1000, cells at sp+4 and sp+8 in {address pattern, 0}; every *_init identifier = its register"},
    }


def replay(case):
    _preimport(True)
    return check_graph(case["mode"], case["n"], case["shape"], tuple(tuple(b) for b in case["bodies"]), tuple(case["conds"]),
                       list(case["alphabet"]), list(case["condnames"]), only=list(case["target"]) + [case.get("order", "min")],
                       dst0=case.get("dst0"), elements=case.get("elements"))[0]
