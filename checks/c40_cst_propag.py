"""C40 - constant propagation preserves behaviour.

Engine E2 over the irgen lattice (every CFG shape with <= N blocks that has an exit; bodies over an alphabet with
constants, register copies, stack memory reads/writes at two cells and a byte inside one of them, stack pointer
moves; branches on a, a == b, a <u 2).  Each graph is analysed and rewritten by the real
    propagate_cst_expr(lifter, ircfg, head, lifter.arch.regs.regs_init)
exactly as example/expression/constant_propagation.py drives it (the call rewrites the blocks of the graph in
place; the rewritten expressions mention the `*_init` identifiers).

Oracle = the property: mc/irinterp runs the original and the rewritten graph from every state of a small lattice
in which each register holds its `*_init` value (the value given to a_init is the value of a at entry, ...), for
every initial content of the stack cells from a small alphabet: same sequence of blocks (destinations), same exit,
same sequence of (address, size, value) memory writes, same final value of every register.
The thorough tier adds the assembled x86_32 functions of mc/x86funcs.py (real lifter, regs_init of the x86 arch).
"""
import itertools

from mc import irgen, irinterp, refsem
from mc.runner import violation

PROP = "C40"
LEVEL = "exploration"
ENGINE = "enum"
RULE = ("complete product: CFG shapes (<= N blocks, every block reachable, at least one exit block) x bodies (<= L assignments "
        "per block from an ordered alphabet) x branch conditions, each rewritten graph run next to the original from every "
        "state of the register x initial-memory lattice; plus (thorough) a fixed list of assembled x86_32 functions; "
        "distinct = distinct graph; non-trivial = the propagation rewrote at least one expression and the original reaches "
        "an exit within the fuel bound from some state")
LEVEL_TEXT = ("Bounded-exhaustive enumeration of small IR graphs through the real constant propagation (symbolic execution of "
              "each block, state join at merges, rewriting); behaviour decided by an independent reference interpreter over a "
              "complete small state lattice. The analysis is shape-generic: a wrong join, a stale memory value or a value "
              "propagated past its redefinition shows on graphs of 1-4 blocks.")
LEVEL_NOTE = ("Trusted: mc/irinterp.py + mc/refsem.py, mc/irgen.py. Memory is only accessed through the stack pointer (the "
              "symbolic engine does not model aliasing between different pointer bases: stores through other registers are kept "
              "out of the alphabet). Runs exceeding the fuel bound in the original graph are skipped and counted.")
TECHNIQUE = "bounded-exhaustive enumeration of IR graphs through propagate_cst_expr; reference-interpreter differential"
ASSUMPTIONS = ["at entry every register holds the value of its *_init identifier (the analysis' init_infos)",
               "memory is accessed through the stack pointer only (no aliasing between pointer bases)"]

ALPHA_FULL = ["a=0", "a=2", "b=1", "a=b", "a=a+1", "r=a", "c=a+b", "@[sp+4]=a", "@[sp+4]=b", "a=@[sp+4]", "b=@[sp+4]",
              "@[sp+8]=1", "b=@[sp+8]", "@8[sp+5]=a", "sp=sp-4", "sp=sp+4"]
ALPHA_MEM = ["a=0", "b=1", "r=a", "@[sp+4]=a", "@[sp+4]=b", "a=@[sp+4]", "b=@[sp+4]"]
ALPHA_SMALL = ["a=0", "a=2", "b=1", "a=b", "@[sp+4]=b", "a=@[sp+4]", "r=a"]
ALPHA_TINY = ["a=0", "@[sp+4]=b", "a=@[sp+4]", "r=a"]
CONDS = ["a", "a==b", "a<u2"]
FUEL = 10

VALS = [0, 1, 2, 0xFFFFFFFF]
MEMS = ["pattern", "zero", "one"]


def features(body_idx, alphabet):
    used = set(alphabet[k] for b in body_idx for k in b)
    tags = []
    if any("=@" in x for x in used):
        tags.append("memread")
    if any(x.startswith("@") for x in used):
        tags.append("memwrite")
    if any(x.startswith("sp=") for x in used):
        tags.append("spmove")
    return "+".join(tags) or "regs"


def graph_text(ircfg):
    out = []
    for lk in sorted(ircfg.blocks, key=lambda k: k.key):
        parts = []
        for ab in ircfg.blocks[lk]:
            parts.append(", ".join("%s = %s" % (d, s) for d, s in sorted(ab.items(), key=lambda kv: str(kv[0]))))
        out.append("%s: %s" % (ircfg.loc_db.pretty_str(lk), " ; ".join(parts)))
    return " | ".join(out)


def cellmem(sp, kind):
    if kind == "pattern":
        return {}
    v = 0 if kind == "zero" else 1
    mem = {}
    for base in (sp + 4, sp + 8):
        for i in range(4):
            mem[(base + i) & 0xFFFFFFFF] = (v >> (8 * i)) & 0xFF
    return mem


def reads(ircfg):
    ids = set()
    mem = False
    for blk in ircfg.blocks.values():
        for ab in blk:
            for dst, src in ab.items():
                for x in src.get_r(mem_read=True):
                    if x.is_id():
                        ids.add(x)
                    elif x.is_mem():
                        mem = True
    return ids, mem


def states(g):
    A = g.arch
    ids, mem = reads(g.ircfg)
    av = VALS if A.a in ids else [1]
    bv = VALS if A.b in ids else [2]
    mv = MEMS if mem else ["pattern"]
    for a, b, mk in itertools.product(av, bv, mv):
        regs = {A.a: a, A.b: b, A.c: 3, A.r: 7, A.sp: 0x1000, A.zf: 0, A.pc: 0, A.END: 0xDEAD0000}
        for x in list(regs):
            if x in A.inits:
                regs[A.inits[x]] = regs[x]
        yield regs, cellmem(0x1000, mk), "{a=%#x,b=%#x,sp=0x1000,cells=%s}" % (a, b, mk)


def differential(desc, case, kind, it0, it1, ircfg0, head0, ircfg1, head1, state_iter, cmp_regs, fuel, info, irdst=None):
    for regs, mem, stxt in state_iter:
        info["states"] += 1
        r0 = it0.run(ircfg0, head0, regs, mem, fuel=fuel, irdst=irdst)
        if r0.fuel_out or r0.undefined:
            info["skipped_states"] += 1
            continue
        info["compared"] += 1
        if r0.writes:
            info["runs_with_writes"] += 1
        try:
            r1 = it1.run(ircfg1, head1, regs, mem, fuel=fuel + 2, irdst=irdst)
        except KeyError as e:
            return [violation("rewritten-graph-reads-unknown-identifier:%s" % kind,
                              "%s: the rewritten graph reads %s (state %s); rewritten: %s" % (desc, e, stxt, graph_text(ircfg1)), case)]
        except refsem.Unsupported as e:
            return [violation("rewritten-graph-unexecutable:%s" % kind, "%s: %s; rewritten: %s" % (desc, e, graph_text(ircfg1)), case)]
        p0 = [str(x) for x in r0.path]
        p1 = [str(x) for x in r1.path]
        if p1 != p0 or r1.exit != r0.exit:
            return [violation("destinations-differ:%s" % kind,
                              "%s: blocks %s exit %r in the original, blocks %s exit %r rewritten (state %s); rewritten: %s" % (
                                  desc, p0, r0.exit, p1, r1.exit, stxt, graph_text(ircfg1)), case)]
        if r1.writes != r0.writes:
            return [violation("memory-writes-differ:%s" % kind,
                              "%s: memory writes %s in the original, %s rewritten (state %s); rewritten: %s" % (
                                  desc, _w(r0.writes), _w(r1.writes), stxt, graph_text(ircfg1)), case)]
        for reg in cmp_regs:
            if r1.regs.get(reg) != r0.regs.get(reg):
                return [violation("register-differs:%s:%s" % (reg, kind),
                                  "%s: final %s = %#x in the original, %#x rewritten (state %s); rewritten: %s" % (
                                      desc, reg, r0.regs.get(reg, -1), r1.regs.get(reg, -1), stxt, graph_text(ircfg1)), case)]
    return []


def _w(ws):
    return "[%s]" % ", ".join("@%d[%#x]=%#x" % (s, a, v) for a, s, v in ws)


CPU_LIMIT = 10           # seconds of CPU time for one analysis of one graph (normal: < 0.1 s)
MAX_HANGS_PER_SHARD = 2  # after that many non-terminating analyses a shard stops and counts what it did not run


class AnalysisTimeout(Exception):
    pass


def guarded(fn, cpu_seconds=None):
    """Runs fn(); an analysis still running after @cpu_seconds of CPU time of this process (normal: < 0.1 s) is
    reported as not terminating (the timer counts consumed CPU time, not wall-clock time)."""
    import signal

    def onalarm(signum, frame):
        raise AnalysisTimeout()
    old = signal.signal(signal.SIGVTALRM, onalarm)
    signal.setitimer(signal.ITIMER_VIRTUAL, cpu_seconds or CPU_LIMIT)
    try:
        return fn()
    finally:
        signal.setitimer(signal.ITIMER_VIRTUAL, 0)
        signal.signal(signal.SIGVTALRM, old)


def check_graph(n, shape_idx, body_idx, cond_idx, alphabet, conds):
    from miasm.analysis.cst_propag import propagate_cst_expr
    shape = irgen.shapes(n)[shape_idx]
    case = {"kind": "irgen", "n": n, "shape": shape_idx, "bodies": body_idx, "conds": cond_idx, "alphabet": alphabet, "condnames": conds}
    desc = irgen.describe(shape, body_idx, cond_idx, alphabet, conds)
    kind = ("loop" if not irgen.shape_is_loop_free(shape) else "dag") + ":" + features(body_idx, alphabet)
    info = {"states": 0, "skipped_states": 0, "compared": 0, "runs_with_writes": 0, "changed": 0, "raised": 0}
    g0 = irgen.build(shape, body_idx, cond_idx, alphabet, conds)
    g = irgen.build(shape, body_idx, cond_idx, alphabet, conds)
    before = graph_text(g.ircfg)
    try:
        guarded(lambda: propagate_cst_expr(g.lifter, g.ircfg, g.head, g.lifter.arch.regs.regs_init))
    except AnalysisTimeout:
        info["raised"] += 1
        return [violation("propagate_cst_expr:does-not-terminate:%s" % kind, "%s: propagate_cst_expr is still running after %d s of CPU time" % (desc, CPU_LIMIT), case)], info
    except Exception as e:
        info["raised"] += 1
        return [violation("propagate_cst_expr:raise:%s:%s" % (type(e).__name__, kind), "%s: propagate_cst_expr raised %r" % (desc, e), case)], info
    if graph_text(g.ircfg) != before:
        info["changed"] += 1
    A = g0.arch
    vs = differential(desc, case, kind, irinterp.Interp(g0.loc_db), irinterp.Interp(g.loc_db), g0.ircfg, g0.head, g.ircfg, g.head,
                      states(g0), list(A.regs), FUEL, info, irdst=A.IRDst)
    return vs, info


def check_x86(idx):
    from miasm.analysis.cst_propag import propagate_cst_expr
    from mc import x86funcs
    import logging
    logging.getLogger("cst_propag").setLevel(logging.ERROR)    # "Bad destination: @32[ESP_init]" of ret is expected
    name = x86funcs.FUNCS[idx][0]
    case = {"kind": "x86", "index": idx, "name": name}
    info = {"states": 0, "skipped_states": 0, "compared": 0, "runs_with_writes": 0, "changed": 0, "raised": 0}
    f0 = x86funcs.lift(idx)
    f = x86funcs.lift(idx)
    kind = "x86/" + ("loop" if f0.has_loop else "dag")
    desc = "x86_32 function %s {%s }" % (name, " ;".join(l.strip() for l in x86funcs.FUNCS[idx][1].splitlines()))
    before = graph_text(f.ircfg)
    try:
        guarded(lambda: propagate_cst_expr(f.lifter, f.ircfg, x86funcs.BASE, f.lifter.arch.regs.regs_init))
    except AnalysisTimeout:
        info["raised"] += 1
        return [violation("propagate_cst_expr:does-not-terminate:%s" % kind, "%s: propagate_cst_expr is still running after %d s of CPU time" % (desc, CPU_LIMIT), case)], info
    except Exception as e:
        info["raised"] += 1
        return [violation("propagate_cst_expr:raise:%s:%s" % (type(e).__name__, kind), "%s: propagate_cst_expr raised %r" % (desc, e), case)], info
    if graph_text(f.ircfg) != before:
        info["changed"] += 1
    R = f0.regs
    inits = dict(R.regs_init)

    def sts():
        for regs, mem, txt in x86funcs.states(f0, extra_ids=list(inits)):
            for reg, ini in inits.items():
                regs[ini] = regs.get(reg, 0)
            yield regs, mem, txt
    cmp_regs = [x for x in R.all_regs_ids if x in inits]
    vs = differential(desc, case, kind, irinterp.Interp(f0.loc_db), irinterp.Interp(f.loc_db), f0.ircfg, f0.head, f.ircfg, f.head,
                      sts(), cmp_regs, x86funcs.FUEL, info)
    return vs, info


def _shard(args):
    if args[0] == "x86":
        v, info = check_x86(args[1])
        sigs = {}
        for x in v:
            sigs[x["sig"]] = sigs.get(x["sig"], 0) + 1
        from mc import x86funcs
        return 1, 1 if info["changed"] and info["compared"] else 0, v, "x86:" + x86funcs.FUNCS[args[1]][0], sigs, info
    _, n, maxlen, alphabet, conds, lo, hi = args
    shapes = irgen.shapes(n)
    bl = irgen.bodies(alphabet, maxlen)
    cnt = nt = 0
    vs = []
    sigs = {}
    tot = {}
    sample = None
    hangs = 0
    stop = False
    for si in range(lo, hi):
        shape = shapes[si]
        if not irgen.shape_has_exit(shape):
            continue
        ncond = [len(conds) if len(s) == 2 else 1 for s in shape]
        for body_idx in itertools.product(bl, repeat=n):
            for cond_idx in itertools.product(*[range(k) for k in ncond]):
                cnt += 1
                v, info = check_graph(n, si, body_idx, cond_idx, alphabet, conds)
                for k, x in info.items():
                    tot[k] = tot.get(k, 0) + x
                if info["changed"] and info["compared"]:
                    nt += 1
                    if sample is None and sum(len(b) for b in body_idx) >= 2:
                        sample = irgen.describe(shape, body_idx, cond_idx, alphabet, conds)
                for x in v:
                    sigs[x["sig"]] = sigs.get(x["sig"], 0) + 1
                    if sigs[x["sig"]] <= 2:
                        vs.append(x)
                    if ":pipeline-does-not-terminate:" in x["sig"] or x["sig"].startswith("propagate_cst_expr:does-not-terminate"):
                        hangs += 1
                if hangs >= MAX_HANGS_PER_SHARD:
                    stop = True
                    break
            if stop:
                break
        if stop:
            break
    planned = 0
    for si in range(lo, hi):
        if irgen.shape_has_exit(shapes[si]):
            k = len(bl) ** n
            for sx in shapes[si]:
                k *= len(conds) if len(sx) == 2 else 1
            planned += k
    tot["not_run"] = planned - cnt
    return cnt, nt, vs, sample, sigs, tot


PLAN_Q = [
    (1, 2, ALPHA_FULL, CONDS),
    (2, 1, ALPHA_FULL, CONDS),
    (3, 1, ALPHA_TINY, ["a"]),
]
PLAN_T = [
    (1, 3, ALPHA_FULL, CONDS),
    (2, 2, ALPHA_MEM, CONDS),
    (2, 1, ALPHA_FULL, CONDS),
    (3, 1, ALPHA_SMALL + ["@[sp+4]=a"], ["a"]),
    (3, 1, ALPHA_TINY, CONDS),
    (4, 1, ["@[sp+4]=b", "a=@[sp+4]"], ["a"]),
]


def _preimport():
    """Import miasm in the parent so that the forked workers share the compiled modules."""
    import miasm.analysis.cst_propag
    import miasm.ir.analysis
    import miasm.core.locationdb
    irgen.build(irgen.shapes(1)[0], ((),), (0,), [], ["a"])


def run(ctx):
    plan = PLAN_Q if ctx.quick else PLAN_T
    _preimport()
    shards = []
    for n, maxlen, alphabet, conds in plan:
        ns = len(irgen.shapes(n))
        for i in range(ns):
            if irgen.shape_has_exit(irgen.shapes(n)[i]):
                shards.append(("irgen", n, maxlen, alphabet, conds, i, i + 1))
    nx86 = 0
    if not ctx.quick:
        from mc import x86funcs
        nx86 = len(x86funcs.FUNCS)
        for i in range(nx86):
            shards.append(("x86", i))
    res = ctx.pmap(_shard, shards)
    sigcount = {}
    tot = {}
    for r in res:
        ctx.add_violations(r[2])
        for k, v in r[4].items():
            sigcount[k] = sigcount.get(k, 0) + v
        for k, v in r[5].items():
            tot[k] = tot.get(k, 0) + v
    return {
        "evaluations": sum(r[0] for r in res),
        "distinct_nontrivial": sum(r[1] for r in res),
        "graphs_rewritten": tot.get("changed", 0),
        "propagations_that_raised": tot.get("raised", 0),
        "state_runs": tot.get("states", 0),
        "state_runs_skipped_fuel": tot.get("skipped_states", 0),
        "state_runs_compared": tot.get("compared", 0),
        "compared_runs_with_memory_writes": tot.get("runs_with_writes", 0),
        "x86_functions": nx86,
        "graphs_not_run_after_repeated_non_termination": tot.get("not_run", 0),
        "violating_graphs_by_signature": sigcount,
        "samples": [r[3] for r in res if r[3]][:6],
        "exhaustive": True,
        "bounds": {"plan(blocks,max_assignments,alphabet,conditions)": [[n, l, a, c] for n, l, a, c in plan],
                   "fuel_blocks": FUEL,
                   "state_lattice": "a,b in {0,1,2,0xFFFFFFFF} (when read), sp = 0x1000, cells at sp+4 and sp+8 in {address pattern, 0, 1} (when memory is read); every *_init identifier = its register"},
    }


def replay(case):
    if case.get("kind") == "x86":
        return check_x86(case["index"])[0]
    return check_graph(case["n"], case["shape"], tuple(tuple(b) for b in case["bodies"]), tuple(case["conds"]), list(case["alphabet"]),
                       list(case["condnames"]))[0]
