"""C40 - constant propagation preserves behaviour.

Engine E2 over the irgen lattice (every CFG shape with <= N blocks that has an exit; bodies over an alphabet with
constants, register copies, stack memory reads/writes at two cells and a byte inside one of them, stack pointer
moves; branches on a, a == b, a <u 2).  Each graph is analysed and rewritten by the real
    propagate_cst_expr(lifter, ircfg, head, lifter.arch.regs.regs_init)
exactly as example/expression/constant_propagation.py drives it (the call rewrites the blocks of the graph in
place; the rewritten expressions mention the `*_init` identifiers).

Oracle = the property: mc/irinterp runs the original and the rewritten graph from every state of a small lattice
in which each register holds its `*_init` value (the value given to a_init is the value of a at entry, ...), for
every initial content of the stack cells from a small alphabet: same sequence of blocks (destinations), same exit,
same sequence of (address, size, value) memory writes, same final value of every register.
The thorough tier adds the assembled x86_32 functions of mc/x86funcs.py (real lifter, regs_init of the x86 arch).

The analysis visits its work list (a set of LocKeys) in key order, so the numbering of the locations decides the
visiting order: lattice graphs are also built with other LocKey creation orders, and two larger templates ("a late,
weaker edge": a block first reached with a known register / stack cell, later through an unconditional edge on which
that knowledge was lost upstream, the value being used two blocks later) are run under every permutation of the
creation order (5 blocks) or under the traversal numberings + rotations (8 blocks; every permutation in thorough).
"""
import itertools

from mc import irgen, irinterp, refsem
from mc.runner import violation

PROP = "C40"
LEVEL = "exploration"
ENGINE = "enum"
RULE = ("complete product: CFG shapes (<= N blocks, every block reachable, at least one exit block) x bodies (<= L assignments "
        "per block from an ordered alphabet) x branch conditions, each rewritten graph run next to the original from every "
        "state of the register x initial-memory lattice; lattice graphs under several LocKey creation orders, two larger "
        "'late weaker edge' templates under every / many creation orders; plus (thorough) a fixed list of assembled x86_32 functions; "
        "distinct = distinct graph; non-trivial = the propagation rewrote at least one expression and the original reaches "
        "an exit within the fuel bound from some state")
LEVEL_TEXT = ("Bounded-exhaustive enumeration of small IR graphs through the real constant propagation (symbolic execution of "
              "each block, state join at merges, rewriting); behaviour decided by an independent reference interpreter over a "
              "complete small state lattice. The analysis is shape-generic: a wrong join, a stale memory value or a value "
              "propagated past its redefinition shows on graphs of 1-4 blocks.")
LEVEL_NOTE = ("Trusted: mc/irinterp.py + mc/refsem.py, mc/irgen.py. Memory is only accessed through the stack pointer (the "
              "symbolic engine does not model aliasing between different pointer bases: stores through other registers are kept "
              "out of the alphabet). Runs exceeding the fuel bound in the original graph are skipped and counted.")
TECHNIQUE = "bounded-exhaustive enumeration of IR graphs through propagate_cst_expr; reference-interpreter differential"
ASSUMPTIONS = ["at entry every register holds the value of its *_init identifier (the analysis' init_infos)",
               "within one graph memory is accessed through one pointer base only: the stack pointer, or (three templates) the "
               "unmodified register a (no aliasing between pointer bases)"]

ALPHA_FULL = ["a=0", "a=2", "b=1", "a=b", "a=a+1", "r=a", "c=a+b", "@[sp+4]=a", "@[sp+4]=b", "a=@[sp+4]", "b=@[sp+4]",
              "@[sp+8]=1", "b=@[sp+8]", "@8[sp+5]=a", "sp=sp-4", "sp=sp+4"]
ALPHA_MEM = ["a=0", "b=1", "r=a", "@[sp+4]=a", "@[sp+4]=b", "a=@[sp+4]", "b=@[sp+4]"]
ALPHA_SMALL = ["a=0", "a=2", "b=1", "a=b", "@[sp+4]=b", "a=@[sp+4]", "r=a"]
ALPHA_TINY = ["a=0", "@[sp+4]=b", "a=@[sp+4]", "r=a"]
CONDS = ["a", "a==b", "a<u2"]
FUEL = 10

VALS = [0, 1, 2, 0xFFFFFFFF]
MEMS = ["pattern", "zero", "one"]


def features(body_idx, alphabet):
    used = set(alphabet[k] for b in body_idx for k in b)
    tags = []
    if any("=@" in x for x in used):
        tags.append("memread")
    if any(x.startswith("@") for x in used):
        tags.append("memwrite")
    if any(x.startswith("sp=") for x in used):
        tags.append("spmove")
    return "+".join(tags) or "regs"


def graph_text(ircfg):
    out = []
    for lk in sorted(ircfg.blocks, key=lambda k: k.key):
        parts = []
        for ab in ircfg.blocks[lk]:
            parts.append(", ".join("%s = %s" % (d, s) for d, s in sorted(ab.items(), key=lambda kv: str(kv[0]))))
        out.append("%s: %s" % (ircfg.loc_db.pretty_str(lk), " ; ".join(parts)))
    return " | ".join(out)


def cellmem(sp, kind):
    if kind == "pattern":
        return {}
    v = 0 if kind == "zero" else 1
    mem = {}
    for base in (sp + 4, sp + 8):
        for i in range(4):
            mem[(base + i) & 0xFFFFFFFF] = (v >> (8 * i)) & 0xFF
    return mem


def reads(ircfg):
    ids = set()
    mem = False
    for blk in ircfg.blocks.values():
        for ab in blk:
            for dst, src in ab.items():
                for x in src.get_r(mem_read=True):
                    if x.is_id():
                        ids.add(x)
                    elif x.is_mem():
                        mem = True
    return ids, mem


def states(g):
    A = g.arch
    ids, mem = reads(g.ircfg)
    av = VALS if A.a in ids else [1]
    bv = VALS if A.b in ids else [2]
    mv = MEMS if mem else ["pattern"]
    for a, b, mk in itertools.product(av, bv, mv):
        regs = {A.a: a, A.b: b, A.c: 3, A.r: 7, A.sp: 0x1000, A.zf: 0, A.pc: 0, A.END: 0xDEAD0000}
        for x in list(regs):
            if x in A.inits:
                regs[A.inits[x]] = regs[x]
        yield regs, cellmem(0x1000, mk), "{a=%#x,b=%#x,sp=0x1000,cells=%s}" % (a, b, mk)


def differential(desc, case, kind, it0, it1, ircfg0, head0, ircfg1, head1, state_iter, cmp_regs, fuel, info, irdst=None):
    for regs, mem, stxt in state_iter:
        info["states"] += 1
        r0 = it0.run(ircfg0, head0, regs, mem, fuel=fuel, irdst=irdst)
        if r0.fuel_out or r0.undefined:
            info["skipped_states"] += 1
            continue
        info["compared"] += 1
        if r0.writes:
            info["runs_with_writes"] += 1
        try:
            r1 = it1.run(ircfg1, head1, regs, mem, fuel=fuel + 2, irdst=irdst)
        except KeyError as e:
            return [violation("rewritten-graph-reads-unknown-identifier:%s" % kind,
                              "%s: the rewritten graph reads %s (state %s); rewritten: %s" % (desc, e, stxt, graph_text(ircfg1)), case)]
        except refsem.Unsupported as e:
            return [violation("rewritten-graph-unexecutable:%s" % kind, "%s: %s; rewritten: %s" % (desc, e, graph_text(ircfg1)), case)]
        p0 = [str(x) for x in r0.path]
        p1 = [str(x) for x in r1.path]
        if p1 != p0 or r1.exit != r0.exit:
            return [violation("destinations-differ:%s" % kind,
                              "%s: blocks %s exit %r in the original, blocks %s exit %r rewritten (state %s); rewritten: %s" % (
                                  desc, p0, r0.exit, p1, r1.exit, stxt, graph_text(ircfg1)), case)]
        if r1.writes != r0.writes:
            return [violation("memory-writes-differ:%s" % kind,
                              "%s: memory writes %s in the original, %s rewritten (state %s); rewritten: %s" % (
                                  desc, _w(r0.writes), _w(r1.writes), stxt, graph_text(ircfg1)), case)]
        for reg in cmp_regs:
            if r1.regs.get(reg) != r0.regs.get(reg):
                return [violation("register-differs:%s:%s" % (reg, kind),
                                  "%s: final %s = %#x in the original, %#x rewritten (state %s); rewritten: %s" % (
                                      desc, reg, r0.regs.get(reg, -1), r1.regs.get(reg, -1), stxt, graph_text(ircfg1)), case)]
    return []


def _w(ws):
    return "[%s]" % ", ".join("@%d[%#x]=%#x" % (s, a, v) for a, s, v in ws)


CPU_LIMIT = 10           # seconds of CPU time for one analysis of one graph (normal: < 0.1 s)
MAX_HANGS_PER_SHARD = 2  # after that many non-terminating analyses a shard stops and counts what it did not run


class AnalysisTimeout(Exception):
    pass


def guarded(fn, cpu_seconds=None):
    """Runs fn(); an analysis still running after @cpu_seconds of CPU time of this process (normal: < 0.1 s) is
    reported as not terminating (the timer counts consumed CPU time, not wall-clock time)."""
    import signal

    def onalarm(signum, frame):
        raise AnalysisTimeout()
    old = signal.signal(signal.SIGVTALRM, onalarm)
    signal.setitimer(signal.ITIMER_VIRTUAL, cpu_seconds or CPU_LIMIT)
    try:
        return fn()
    finally:
        signal.setitimer(signal.ITIMER_VIRTUAL, 0)
        signal.signal(signal.SIGVTALRM, old)


def build_ordered(shape, body_names, cond_names, order=None):
    """Same graph as irgen.build, but the LocKeys are created in the given order (order[k] = block created k-th):
    the analysis' work list is a set of LocKeys popped in key order, so the numbering decides the visiting order."""
    from miasm.core.locationdb import LocationDB
    from miasm.ir.ir import IRBlock, AssignBlock
    import miasm.expression.expression as m
    n = len(shape)
    order = list(order) if order is not None else list(range(n))
    loc_db = LocationDB()
    lifter, A = irgen.make_lifter(loc_db)
    locs = [None] * n
    for i in order:
        locs[i] = loc_db.add_location("lbl%d" % i, i * 0x10)
    ircfg = lifter.new_ircfg()
    for i in range(n):
        blks = [AssignBlock(dict(d)) for _, d in irgen.assign_alphabet(A, list(body_names[i]))]
        succ = shape[i]
        if len(succ) == 0:
            dst = A.END
        elif len(succ) == 1:
            dst = m.ExprLoc(locs[succ[0]], 32)
        else:
            cond = irgen.cond_alphabet(A, [cond_names[i]])[0][1]
            dst = m.ExprCond(cond, m.ExprLoc(locs[succ[0]], 32), m.ExprLoc(locs[succ[1]], 32))
        blks.append(AssignBlock({A.IRDst: dst}))
        ircfg.add_irblock(IRBlock(loc_db, locs[i], blks))
    out = irgen.Built()
    out.ircfg, out.lifter, out.arch, out.loc_db, out.locs, out.head = ircfg, lifter, A, loc_db, locs, locs[0]
    return out


def describe_named(shape, body_names, cond_names, order):
    lines = []
    for i, succ in enumerate(shape):
        body = "; ".join(body_names[i])
        t = "END" if not succ else ("goto %d" % succ[0] if len(succ) == 1 else "%s ? %d : %d" % (cond_names[i], succ[0], succ[1]))
        lines.append("B%d: %s -> %s" % (i, body, t))
    txt = " | ".join(lines)
    if order is not None and list(order) != list(range(len(shape))):
        txt += " [LocKeys created in block order %s]" % ",".join(map(str, order))
    return txt


def shape_loop_free(shape):
    return irgen.shape_is_loop_free(shape)


def check_named(shape, body_names, cond_names, order, case, tag=""):
    from miasm.analysis.cst_propag import propagate_cst_expr
    desc = describe_named(shape, body_names, cond_names, order)
    used = sorted(set(x for b in body_names for x in b))
    kind = ("loop" if not shape_loop_free(shape) else "dag") + ":" + features([tuple(range(len(used)))], used) + tag
    info = {"states": 0, "skipped_states": 0, "compared": 0, "runs_with_writes": 0, "changed": 0, "raised": 0}
    g0 = build_ordered(shape, body_names, cond_names, order)
    g = build_ordered(shape, body_names, cond_names, order)
    before = graph_text(g.ircfg)
    try:
        guarded(lambda: propagate_cst_expr(g.lifter, g.ircfg, g.head, g.lifter.arch.regs.regs_init))
    except AnalysisTimeout:
        info["raised"] += 1
        return [violation("propagate_cst_expr:does-not-terminate:%s" % kind, "%s: propagate_cst_expr is still running after %d s of CPU time" % (desc, CPU_LIMIT), case)], info
    except Exception as e:
        info["raised"] += 1
        return [violation("propagate_cst_expr:raise:%s:%s" % (type(e).__name__, kind), "%s: propagate_cst_expr raised %r" % (desc, e), case)], info
    if graph_text(g.ircfg) != before:
        info["changed"] += 1
    A = g0.arch
    vs = differential(desc, case, kind, irinterp.Interp(g0.loc_db), irinterp.Interp(g.loc_db), g0.ircfg, g0.head, g.ircfg, g.head,
                      states(g0), list(A.regs), FUEL, info, irdst=A.IRDst)
    return vs, info


def check_graph(n, shape_idx, body_idx, cond_idx, alphabet, conds, order=None):
    shape = irgen.shapes(n)[shape_idx]
    case = {"kind": "irgen", "n": n, "shape": shape_idx, "bodies": body_idx, "conds": cond_idx, "alphabet": alphabet, "condnames": conds,
            "order": list(order) if order is not None else None}
    body_names = [[alphabet[k] for k in b] for b in body_idx]
    cond_names = [conds[cond_idx[i]] if len(shape[i]) == 2 else None for i in range(n)]
    return check_named(shape, body_names, cond_names, order, case)


# ------------------------------------------------------------------ templates: a late, weaker edge
# Shapes larger than the lattice in which a block X is first reached along a path that gives a register / a stack
# cell a known value, and later through an edge on which that knowledge was lost upstream; the blocks after X use
# the value.  Every listed order of LocKey creation is run (the work list is visited in key order).
#   (name, shape, per block list of alternative bodies, per block condition)
_SSR = [("c=a", "a=5", "a=c", "r=a"), ("c=a", "a=5", "b=a", "a=c", "r=a"), ("swap", "a=5", "swap", "r=a"),
        ("@[sp+4]=a", "a=5", "a=@[sp+4]", "r=a"), ("c=a", "a=c", "r=a")]
TEMPLATES = [
    ("cell-written-on-one-branch-used-two-blocks-later",
     ((1, 2), (3,), (3,), (4,), ()),
     [[()], [("@[sp+8]=1",), ("b=5",)], [(), ("b=2",)], [()], [("b=@[sp+8]", "r=b"), ("r=b",)]],
     ["a", None, None, None, None], "permutations"),
    # both edges into X (block 5) are unconditional jumps: from the pass-through block 7 (b = 5 known) and from the common
    # tail 4 of the nested if/else (b = 1 or 2: not known); block 6 uses b
    ("value-direct-or-through-nested-if-else-with-common-tail-used-later",
     ((7, 1), (2, 3), (4,), (4,), (5,), (6,), (), (5,)),
     [[("b=5",), ()], [()], [("b=1",)], [("b=2",), ("b=1",)], [()], [()], [("r=b",), ("r=b+1",)], [()]],
     ["a", "a==b", None, None, None, None, None, None], "permutations"),
    # "save / scratch constant / restore of a register the analysis does not know": a holds two different constants on the
    # two ways into the join (or is a loop-carried value), is saved (other register, exchange with b, stack slot),
    # overwritten with a constant, restored and read.
    ("save-scratch-restore-after-a-diamond", ((1, 2), (3,), (3,), ()),
     [[()], [("a=0",)], [("a=2",), ("a=0",)], _SSR], ["b", None, None, None], "traversal"),
    ("save-scratch-restore-after-a-triangle", ((1, 2), (2,), ()),
     [[("a=0",), ()], [("a=2",)], _SSR], ["b", None, None], "traversal"),
    # one symbolic base (register a, never modified): a constant stored at base+0, a wider store at a negative displacement
    # whose bytes cross offset 0 of the base, a reload of the overwritten cells used afterwards; block boundaries in between
    ("store-straddling-offset-0-of-its-base/two-blocks", ((1,), ()),
     [[("@[a]=5",), ("@[a]=5", "@[a-3]=b"), ("@[a]=5", "@[a-2]=b")],
      [("@[a-3]=b", "c=@[a]", "r=c+1"), ("@[a-2]=b", "c=@[a]", "r=c+1"), ("c=@[a]", "r=c+1")]], [None, None], "traversal"),
    ("store-straddling-offset-0-of-its-base/three-blocks", ((1,), (2,), ()),
     [[("@[a]=5",)], [("@[a-3]=b",), ("@[a-2]=b",), ()], [("c=@[a]", "r=c+1")]], [None, None, None], "traversal"),
    ("store-straddling-offset-0-of-its-base/in-one-arm", ((1, 2), (2,), ()),
     [[("@[a]=5",)], [("@[a-3]=b",), ("@[a-2]=b",)], [("c=@[a]", "r=c+1")]], ["b", None, None], "traversal"),
    ("save-scratch-restore-behind-a-loop-head", ((1,), (1, 2), ()),
     [[(), ("a=0",)], [x + ("a=a+1",) for x in _SSR], [(), ("r=a",)]], [None, "a", None], "traversal"),
]


def traversal_orders(shape):
    """Numberings a front end could produce: breadth-first and depth-first from the head, first or second successor
    first, and the reverse of each."""
    out = []
    for flip in (False, True):
        succ = [tuple(reversed(s)) if flip else tuple(s) for s in shape]
        bfs, seen = [0], {0}
        i = 0
        while i < len(bfs):
            for x in succ[bfs[i]]:
                if x not in seen:
                    seen.add(x)
                    bfs.append(x)
            i += 1
        dfs, seen = [], set()

        def walk(u):
            seen.add(u)
            dfs.append(u)
            for x in succ[u]:
                if x not in seen:
                    walk(x)
        walk(0)
        for o in (bfs, dfs):
            for oo in (o, o[::-1]):
                if len(oo) == len(shape) and oo not in out:
                    out.append(list(oo))
    return out


def orders_for(shape, full):
    """Every permutation (full), else the traversal numberings plus the rotations of the identity and of the reversed numbering."""
    n = len(shape)
    if full:
        return [list(p) for p in itertools.permutations(range(n))]
    out = traversal_orders(shape)
    for base in (list(range(n)), list(range(n - 1, -1, -1))):
        for k in range(n):
            o = base[k:] + base[:k]
            if o not in out:
                out.append(o)
    return out


def check_template(ti, body_choice, order):
    name, shape, alts, cond_names = TEMPLATES[ti][:4]
    body_names = [list(alts[i][body_choice[i]]) for i in range(len(shape))]
    case = {"kind": "template", "template": ti, "name": name, "choice": list(body_choice), "order": list(order)}
    return check_named(shape, body_names, cond_names, order, case, tag=":" + ("late-weaker-edge" if TEMPLATES[ti][4] == "permutations" else
                                   "store-straddling-base" if TEMPLATES[ti][0].startswith("store-straddling") else "save-scratch-restore"))


def check_x86(idx):
    from miasm.analysis.cst_propag import propagate_cst_expr
    from mc import x86funcs
    import logging
    logging.getLogger("cst_propag").setLevel(logging.ERROR)    # "Bad destination: @32[ESP_init]" of ret is expected
    name = x86funcs.FUNCS[idx][0]
    case = {"kind": "x86", "index": idx, "name": name}
    info = {"states": 0, "skipped_states": 0, "compared": 0, "runs_with_writes": 0, "changed": 0, "raised": 0}
    f0 = x86funcs.lift(idx)
    f = x86funcs.lift(idx)
    kind = "x86/" + ("loop" if f0.has_loop else "dag")
    desc = "x86_32 function %s {%s }" % (name, " ;".join(l.strip() for l in x86funcs.FUNCS[idx][1].splitlines()))
    before = graph_text(f.ircfg)
    try:
        guarded(lambda: propagate_cst_expr(f.lifter, f.ircfg, x86funcs.BASE, f.lifter.arch.regs.regs_init))
    except AnalysisTimeout:
        info["raised"] += 1
        return [violation("propagate_cst_expr:does-not-terminate:%s" % kind, "%s: propagate_cst_expr is still running after %d s of CPU time" % (desc, CPU_LIMIT), case)], info
    except Exception as e:
        info["raised"] += 1
        return [violation("propagate_cst_expr:raise:%s:%s" % (type(e).__name__, kind), "%s: propagate_cst_expr raised %r" % (desc, e), case)], info
    if graph_text(f.ircfg) != before:
        info["changed"] += 1
    R = f0.regs
    inits = dict(R.regs_init)

    def sts():
        for regs, mem, txt in x86funcs.states(f0, extra_ids=list(inits)):
            for reg, ini in inits.items():
                regs[ini] = regs.get(reg, 0)
            yield regs, mem, txt
    cmp_regs = [x for x in R.all_regs_ids if x in inits]
    vs = differential(desc, case, kind, irinterp.Interp(f0.loc_db), irinterp.Interp(f.loc_db), f0.ircfg, f0.head, f.ircfg, f.head,
                      sts(), cmp_regs, x86funcs.FUEL, info)
    return vs, info


def _shard(args):
    if args[0] == "x86":
        v, info = check_x86(args[1])
        sigs = {}
        for x in v:
            sigs[x["sig"]] = sigs.get(x["sig"], 0) + 1
        from mc import x86funcs
        return 1, 1 if info["changed"] and info["compared"] else 0, v, "x86:" + x86funcs.FUNCS[args[1]][0], sigs, info
    if args[0] == "template":
        _, ti, orders, all_choices = args
        name, shape, alts, cond_names = TEMPLATES[ti][:4][:4]
        cnt = nt = 0
        vs, sigs, tot, sample = [], {}, {}, None
        for order in orders:
            for choice in itertools.product(*[range(len(a) if all_choices else 1) for a in alts]):
                cnt += 1
                v, info = check_template(ti, choice, order)
                for k, x in info.items():
                    tot[k] = tot.get(k, 0) + x
                if info["changed"] and info["compared"]:
                    nt += 1
                    if sample is None:
                        sample = "template %s, order %s" % (name, order)
                for x in v:
                    sigs[x["sig"]] = sigs.get(x["sig"], 0) + 1
                    if sigs[x["sig"]] <= 2:
                        vs.append(x)
        tot["template_graphs"] = cnt
        return cnt, nt, vs, sample, sigs, tot
    _, n, maxlen, alphabet, conds, lo, hi, order = args
    shapes = irgen.shapes(n)
    bl = irgen.bodies(alphabet, maxlen)
    cnt = nt = 0
    vs = []
    sigs = {}
    tot = {}
    sample = None
    hangs = 0
    stop = False
    for si in range(lo, hi):
        shape = shapes[si]
        if not irgen.shape_has_exit(shape):
            continue
        ncond = [len(conds) if len(s) == 2 else 1 for s in shape]
        for body_idx in itertools.product(bl, repeat=n):
            for cond_idx in itertools.product(*[range(k) for k in ncond]):
                cnt += 1
                v, info = check_graph(n, si, body_idx, cond_idx, alphabet, conds, order)
                for k, x in info.items():
                    tot[k] = tot.get(k, 0) + x
                if info["changed"] and info["compared"]:
                    nt += 1
                    if sample is None and sum(len(b) for b in body_idx) >= 2:
                        sample = irgen.describe(shape, body_idx, cond_idx, alphabet, conds)
                for x in v:
                    sigs[x["sig"]] = sigs.get(x["sig"], 0) + 1
                    if sigs[x["sig"]] <= 2:
                        vs.append(x)
                    if ":pipeline-does-not-terminate:" in x["sig"] or x["sig"].startswith("propagate_cst_expr:does-not-terminate"):
                        hangs += 1
                if hangs >= MAX_HANGS_PER_SHARD:
                    stop = True
                    break
            if stop:
                break
        if stop:
            break
    planned = 0
    for si in range(lo, hi):
        if irgen.shape_has_exit(shapes[si]):
            k = len(bl) ** n
            for sx in shapes[si]:
                k *= len(conds) if len(sx) == 2 else 1
            planned += k
    tot["not_run"] = planned - cnt
    return cnt, nt, vs, sample, sigs, tot


REV2, REV3 = [1, 0], [2, 1, 0]
PLAN_Q = [
    (1, 2, ALPHA_FULL, CONDS, None),
    (2, 1, ALPHA_FULL, CONDS, None),
    (2, 1, ALPHA_FULL, ["a"], REV2),
    (3, 1, ALPHA_TINY, ["a"], None),
]
PLAN_T = [
    (1, 3, ALPHA_FULL, CONDS, None),
    (2, 2, ALPHA_MEM, CONDS, None),
    (2, 1, ALPHA_FULL, CONDS, None),
    (2, 1, ALPHA_FULL, CONDS, REV2),
    (3, 1, ALPHA_SMALL + ["@[sp+4]=a"], ["a"], None),
    (3, 1, ALPHA_TINY, CONDS, None),
    (3, 1, ALPHA_TINY, ["a"], REV3),
    (3, 1, ALPHA_TINY, ["a"], [1, 2, 0]),
    (3, 1, ALPHA_TINY, ["a"], [2, 0, 1]),
    (4, 1, ["@[sp+4]=b", "a=@[sp+4]"], ["a"], None),
]


def _preimport():
    """Import miasm in the parent so that the forked workers share the compiled modules."""
    import miasm.analysis.cst_propag
    import miasm.ir.analysis
    import miasm.core.locationdb
    irgen.build(irgen.shapes(1)[0], ((),), (0,), [], ["a"])


def run(ctx):
    plan = PLAN_Q if ctx.quick else PLAN_T
    _preimport()
    shards = []
    for n, maxlen, alphabet, conds, order in plan:
        ns = len(irgen.shapes(n))
        for i in range(ns):
            if irgen.shape_has_exit(irgen.shapes(n)[i]):
                shards.append(("irgen", n, maxlen, alphabet, conds, i, i + 1, order))
    template_orders = {}
    for ti, (name, shape, alts, cond_names, order_mode) in enumerate(TEMPLATES):
        # "permutations": <= 5 blocks: every permutation x every body alternative; larger: traversal numberings + rotations x
        # every body alternative, and (thorough) every permutation x the first body alternative of each block.
        # "traversal": traversal numberings + rotations (quick), every permutation (thorough), x every body alternative.
        small = len(shape) <= 5
        if order_mode == "permutations":
            jobs = [(orders_for(shape, full=small), True)]
            if not small and not ctx.quick:
                jobs.append((orders_for(shape, full=True), False))
        else:
            jobs = [(orders_for(shape, full=not ctx.quick), True)]
        template_orders[name] = [len(o) for o, _ in jobs]
        for orders, all_choices in jobs:
            step = max(1, len(orders) // 48)
            for lo in range(0, len(orders), step):
                shards.append(("template", ti, orders[lo:lo + step], all_choices))
    nx86 = 0
    if not ctx.quick:
        from mc import x86funcs
        nx86 = len(x86funcs.FUNCS)
        for i in range(nx86):
            shards.append(("x86", i))
    res = ctx.pmap(_shard, shards)
    sigcount = {}
    tot = {}
    for r in res:
        ctx.add_violations(r[2])
        for k, v in r[4].items():
            sigcount[k] = sigcount.get(k, 0) + v
        for k, v in r[5].items():
            tot[k] = tot.get(k, 0) + v
    return {
        "evaluations": sum(r[0] for r in res),
        "distinct_nontrivial": sum(r[1] for r in res),
        "graphs_rewritten": tot.get("changed", 0),
        "propagations_that_raised": tot.get("raised", 0),
        "state_runs": tot.get("states", 0),
        "state_runs_skipped_fuel": tot.get("skipped_states", 0),
        "state_runs_compared": tot.get("compared", 0),
        "compared_runs_with_memory_writes": tot.get("runs_with_writes", 0),
        "x86_functions": nx86,
        "graphs_not_run_after_repeated_non_termination": tot.get("not_run", 0),
        "violating_graphs_by_signature": sigcount,
        "samples": [r[3] for r in res if r[3]][:6],
        "exhaustive": True,
        "template_graphs(x LocKey creation orders)": tot.get("template_graphs", 0),
        "bounds": {"plan(blocks,max_assignments,alphabet,conditions,lockey_creation_order)": [[n, l, a, c, o] for n, l, a, c, o in plan],
                   "templates(name,shape,body_alternatives,conditions,lockey_orders)": [[t[0], t[1], t[2], t[3], t[4]] for t in TEMPLATES],
                   "template_lockey_orders": template_orders,
                   "fuel_blocks": FUEL,
                   "state_lattice": "a,b in {0,1,2,0xFFFFFFFF} (when read), sp = 0x1000, cells at sp+4 and sp+8 in {address pattern, 0, 1} (when memory is read); every *_init identifier = its register"},
    }


def replay(case):
    if case.get("kind") == "x86":
        return check_x86(case["index"])[0]
    if case.get("kind") == "template":
        return check_template(case["template"], tuple(case["choice"]), list(case["order"]))[0]
    return check_graph(case["n"], case["shape"], tuple(tuple(b) for b in case["bodies"]), tuple(case["conds"]), list(case["alphabet"]),
                       list(case["condnames"]), case.get("order"))[0]
