"""C41 - dynamic symbolic execution stays in step and yields valid new inputs.

Engine E2: complete enumeration of a grammar of small x86_32 programs whose branches depend on one 32-bit input

    [arithmetic on the input]  CMP/TEST input, constant  Jcc  ...   (one, two sequential, nested, or three branches)

with the input in a register (EAX, symbolised with update_state({EAX: INPUT})) or in a 4-byte memory cell
(symbolize_memory over its four bytes; compared in place, loaded first, or modified in place first).
A family ("table") indexes a table of 2 or 4 entries of 8/16/32 bits with the masked symbolic input (AND EAX, n-1; load or
compare of [table + EAX*size]): the branch condition reads memory through an input-dependent pointer; the compare
constant is a real entry (first / last), equals the last entry in its first byte only, or matches no entry.
A family ("division") branches on the quotient or remainder of an 8/16-bit IDIV/DIV whose dividend is the full symbolic
register pair (AX, or DX:AX loaded from the whole input) with the constant divisors 3, 100, -7, so that dividend x
divisor overflows the dividend's width for part of the inputs.
A further family ("straddle") symbolises a 4- or 2-byte buffer in the middle of the data page, performs one 8/16/32-bit
store (constant, or read-modify-write) that straddles the START of the buffer, straddles its END, covers it from below,
lies inside or lies outside it, and then branches on a byte / word / dword of the buffer (overwritten, kept or mixed
bytes): a branch on overwritten bytes must not yield an input for a branch no input can reach.
Every program is assembled with miasm's assembler and run on the real jitter (shadow tree, backend python; gcc too
in the thorough tier) under the real DSEPathConstraint, exactly as example/symbol_exec/dse_crackme.py drives it:

    jitter.init_run(start); dse = DSEPathConstraint(machine, loc_db, produce_solution=S); dse.attach(jitter)
    dse.update_state_from_concrete(); <symbolise the input>; jitter.continue_run()

for every initial input of the group's list (values of refsem.boundary(32)) and the strategies branch / code / path
coverage.

Oracle = the property:
  * the run ends at the return sentinel without DriftException (and without any other exception of the DSE);
  * every entry of `new_solutions` is turned into a concrete input (value of INPUT / of the bytes MEM_0x..; an
    unconstrained symbol is given 0), written into a FRESH jitter (single-step: jit_maxline=1, max_exec_per_call=1),
    and the dispatch trace of that run must take the recorded branch:
      branch coverage  key (previous address, destination): the two addresses are consecutive in the trace;
      code coverage    key destination: the address is in the trace;
      path coverage    key (a0, ..., ak, destination): the trace starts with exactly these addresses.
A solution whose destination is an IR block generated inside one instruction (the #DE arm of a division) has no address
and is counted, not replayed; an initial input on which the program itself faults (quotient overflow) is skipped and
counted. Which model the solver returns depends on the history of its context: a replay that is handed another model
judges the recorded input against the assertions under which this run's DSE asked for a model (closed-term folding).
Nothing is demanded about WHICH solutions are produced (completeness is not part of the property); their numbers are
counted so that vacuity is visible.
"""
import sys

from mc import adaptive
from mc.runner import violation

PROP = "C41"
LEVEL = "exploration"
ENGINE = "enum"
RULE = ("complete product of the program grammar (input location x arithmetic step x compare x Jcc for single-branch programs; "
        "fixed menus of first/second/third compare+Jcc for sequential, nested and three-branch programs) x initial inputs x "
        "solution strategies x backends; distinct = distinct (program, input, strategy, backend); non-trivial = the run met "
        "at least one input-dependent branch (DSE recorded a path constraint or produced a solution)")
LEVEL_TEXT = ("Bounded-exhaustive enumeration of small branching x86_32 programs through the real DSE attached to the real jitter; "
              "every produced model is judged by concrete replay on a fresh jitter, never by the solver. Flag semantics, the "
              "translation of conditions to z3, path-constraint bookkeeping and the three solution strategies are all on the path; "
              "their mistakes do not depend on program size, so 1-3 branch programs over boundary inputs expose them.")
LEVEL_NOTE = ("Trusted: miasm's x86 assembler and the jitter's concrete execution of ~15 instructions (judged by C17/C18/C20), the "
              "harness mc/jitprog.py / mc/jitx.py. The LLVM backend is absent from this image. Programs are loop-free and at most "
              "three branches deep; inputs are one 32-bit register, one 4-byte cell or a 2/4-byte buffer; library stubs, snapshots/restore and "
              "symbolic pointers are not exercised.")
TECHNIQUE = "bounded-exhaustive enumeration of branching x86 programs under the real DSE; concrete replay of every produced model on a fresh jitter"
ASSUMPTIONS = ["a symbol left unconstrained by a model may take any value (0 is used)",
               "the Python backend's module-global simplifier passes are reset before each new jitter (one jitter per process in real use)"]

CODE = 0x1000
DATA = 0x2000
END = 0x1337BEE0
CELL = "DWORD PTR [0x2000]"
OTHER = "DWORD PTR [0x2010]"     # a concrete (never symbolised) cell written by some arms: the drift check covers memory too
MAX_TRACE = 200

STRATS = {"code": 1, "branch": 2, "path": 3}

# ------------------------------------------------------------------ grammar (ordered simplest first)
ARITH = ["none", "ADD $, 0x3", "SUB $, 0x10", "XOR $, 0x55", "SHL $, 1", "IMUL EAX, EAX, 0x3", "NEG $", "ADD $, 0x80000000"]
CMPS = ["CMP $, 0x10", "TEST $, 0x1", "CMP $, 0x80000000", "TEST $, 0x80", "CMP $, 0x0", "CMP $, 0xFFFFFFFF", "TEST $, 0x80000000",
        "CMP $, 0x7FFFFFFF"]
JCCS = ["JZ", "JNZ", "JB", "JA", "JL", "JG", "JS", "JAE", "JBE", "JGE", "JLE", "JNS", "JO", "JPE"]
MODES = ["reg", "memdirect", "memload", "meminplace", "membuf"]


def single(mode, arith, cmp_, jcc):
    """One branch.  mode: where the input lives / how it is used."""
    X = "EAX" if mode in ("reg", "memload") else CELL
    lines = ["main:"]
    if mode == "memload":
        lines.append("    MOV EAX, " + CELL)
    if arith != "none":
        if arith.startswith("IMUL"):
            if X != "EAX":
                return None
            lines.append("    " + arith)
        else:
            lines.append("    " + arith.replace("$", X))
    lines += ["    " + cmp_.replace("$", X),
              "    %s l1" % jcc,
              "    MOV EBX, 0x1",
              "    JMP end",
              "l1:",
              "    MOV " + OTHER + ", 0x2",
              "end:",
              "    RET"]
    return "\n".join(lines) + "\n"


def multi(kind, mode, c1, j1, mid, c2, j2, c3=None, j3=None):
    """kind: seq (two branches one after the other), nested (second branch inside the taken arm of the first),
    nestedft (second branch inside the fall-through arm), three (nested + a third branch after the join)."""
    X = "EAX" if mode in ("reg", "memload") else CELL
    pre = ["main:"] + (["    MOV EAX, " + CELL] if mode == "memload" else [])
    midl = [] if mid == "none" else ["    " + mid.replace("$", X)]
    b1 = ["    " + c1.replace("$", X), "    %s l1" % j1]
    b2 = ["    " + c2.replace("$", X), "    %s l2" % j2]
    if kind == "seq":
        body = b1 + ["    INC EBX", "l1:"] + midl + b2 + ["    INC " + OTHER, "l2:", "    INC EDX"]
    elif kind == "nested":
        body = b1 + ["    MOV EBX, 0x1", "    JMP end", "l1:"] + midl + b2 + ["    MOV EBX, 0x2", "    JMP end", "l2:", "    MOV EBX, 0x3"]
    elif kind == "nestedft":
        body = b1 + midl + b2 + ["    MOV EBX, 0x1", "    JMP end", "l2:", "    MOV EBX, 0x2", "    JMP end", "l1:", "    MOV EBX, 0x3"]
    elif kind == "three":
        b3 = ["    " + c3.replace("$", X), "    %s l3" % j3]
        body = b1 + ["    MOV EBX, 0x1", "    JMP join", "l1:"] + midl + b2 + ["    MOV EBX, 0x2", "    JMP join", "l2:", "    MOV EBX, 0x3",
                                                                             "join:"] + b3 + ["    INC " + OTHER, "l3:", "    INC EDX"]
    else:
        raise ValueError(kind)
    return "\n".join(pre + body + ["end:", "    RET"]) + "\n"


BUF = 0x2008       # symbolised buffer of the straddle family: inside the data page, so that stores can start below it
STORE_K = {32: 0x44332211, 16: 0x2211, 8: 0x11}
SIZE_KW = {32: "DWORD", 16: "WORD", 8: "BYTE"}


def straddle(buflen, skind, soff, ssize, csize, coff, cconst, jcc):
    """A store that is not aligned with the symbolised buffer [BUF, BUF+buflen), then a branch on bytes of the buffer.
    skind: const (MOV size PTR [BUF+soff], K) or rmw (ADD size PTR [BUF+soff], 0x3); the compare reads csize bits at
    BUF+coff."""
    dst = "%s PTR [0x%X]" % (SIZE_KW[ssize], BUF + soff)
    store = "MOV %s, 0x%X" % (dst, STORE_K[ssize]) if skind == "const" else "ADD %s, 0x3" % dst
    lines = ["main:",
             "    " + store,
             "    CMP %s PTR [0x%X], 0x%X" % (SIZE_KW[csize], BUF + coff, cconst),
             "    %s l1" % jcc,
             "    MOV EBX, 0x1",
             "    JMP end",
             "l1:",
             "    MOV EBX, 0x2",
             "end:",
             "    RET"]
    return "\n".join(lines) + "\n"


def straddle_class(spec):
    """Where the store lies relative to the symbolised buffer, and whether the compare reads a byte it overwrote."""
    _, buflen, skind, soff, ssize, csize, coff, cconst, jcc = spec
    lo, hi = soff, soff + ssize // 8          # store covers [lo, hi) relative to BUF
    if hi <= 0 or lo >= buflen:
        where = "outside"
    elif lo < 0 and hi >= buflen:
        where = "covering-from-below"
    elif lo < 0:
        where = "straddling-start"
    elif hi > buflen:
        where = "straddling-end"
    else:
        where = "inside"
    read = set(range(coff, coff + csize // 8))
    over = read & set(range(lo, hi))
    what = "overwritten-bytes" if over == read else ("kept-bytes" if not over else "mixed-bytes")
    return where, what


def straddles(buflen, skinds, stores, cmps, jccs):
    return [["straddle", buflen, sk, soff, ssize, csize, coff, cconst, j] for sk in skinds for (soff, ssize) in stores
            for (csize, coff, cconst) in cmps for j in jccs]


def division(op, width, divisor, part, cconst, jcc):
    """A branch on the quotient (part "q") or remainder ("r") of a division whose dividend uses the FULL register pair
    symbolically: 8-bit `op BL` divides AX (low half of the input), 16-bit `op BX` divides DX:AX (the whole input, its
    high half moved to DX first). The divisor is a constant (never zero)."""
    mask = (1 << width) - 1
    lines = ["main:", "    MOV EBX, 0x%X" % (divisor & mask)]
    if width == 16:
        lines += ["    MOV EDX, EAX", "    SHR EDX, 0x10"]
    lines.append("    %s %s" % (op, "BL" if width == 8 else "BX"))
    reg = {(8, "q"): "AL", (8, "r"): "AH", (16, "q"): "AX", (16, "r"): "DX"}[(width, part)]
    lines += ["    CMP %s, 0x%X" % (reg, cconst & mask),
              "    %s l1" % jcc,
              "    MOV ECX, 0x1",
              "    JMP end",
              "l1:",
              "    MOV ECX, 0x2",
              "end:",
              "    RET"]
    return "\n".join(lines) + "\n"


TAB = 0x2020      # lookup table of the table family (inside the data page, after the cells used by the other families)
TAB_ENTRIES = {32: [0x11223344, 0x55667788, 0x99AABBCC, 0xDDEEFF10], 16: [0x1122, 0x3344, 0x5566, 0x7788], 8: [0x11, 0x22, 0x33, 0x44]}
TAB_CLASSES = ["first-entry", "last-entry", "last-entry-low-byte-only", "no-entry"]


def table_const(width, n, cls):
    ent = TAB_ENTRIES[width][:n]
    if cls == "first-entry":
        return ent[0]
    if cls == "last-entry":
        return ent[-1]
    if cls == "last-entry-low-byte-only":
        # equal to the last entry in its first byte only: no input reaches the branch, but a solver that may invent
        # the other bytes of the last element "finds" one
        return (0x5A5A5A00 & ((1 << width) - 1)) | (ent[-1] & 0xFF)
    return 0x0BADF00D & ((1 << width) - 1)


def table(width, n, form, cls, jcc):
    """A table of n entries of `width` bits indexed by the masked symbolic input: the branch condition reads memory
    through an input-dependent pointer. form load: the entry goes to EDX first; direct: CMP on the memory operand."""
    mem = "%s PTR [EAX * 0x%X + 0x%X]" % (SIZE_KW[width], width // 8, TAB)
    c = table_const(width, n, cls)
    lines = ["main:", "    AND EAX, 0x%X" % (n - 1)]
    if form == "load":
        lines.append("    MOV EDX, " + mem if width == 32 else "    MOVZX EDX, " + mem)
        lines.append("    CMP EDX, 0x%X" % c)
    else:
        lines.append("    CMP %s, 0x%X" % (mem, c))
    lines += ["    %s l1" % jcc,
              "    MOV ECX, 0x1",
              "    JMP end",
              "l1:",
              "    MOV ECX, 0x2",
              "end:",
              "    RET"]
    return "\n".join(lines) + "\n"


def tables(widths, ns, forms, classes, jccs):
    return [["table", w, n, f, cls, j] for w in widths for n in ns for f in forms for cls in classes for j in jccs
            if not (w == 8 and cls == "last-entry-low-byte-only")]


def divisions(ops, widths, divisors, branches):
    return [["division", op, w, d, part, c, j] for op in ops for w in widths for d in divisors for (part, c, j) in branches]


def build(spec):
    if spec[0] == "single":
        return single(*spec[1:])
    if spec[0] == "division":
        return division(*spec[1:])
    if spec[0] == "table":
        return table(*spec[1:])
    if spec[0] == "straddle":
        return straddle(*spec[1:])
    return multi(*spec[1:])


def spec_mode(spec):
    if spec[0] == "straddle":
        return "membuf"
    if spec[0] in ("division", "table"):
        return "reg"
    return spec[1] if spec[0] == "single" else spec[2]


def spec_buf(spec):
    """(address, length) of the symbolised memory input, None when the input is the register EAX."""
    if spec[0] == "straddle":
        return BUF, spec[1]
    return None if spec_mode(spec) == "reg" else (DATA, 4)


def singles(mode, ariths, cmps, jccs):
    out = []
    for a in ariths:
        for c in cmps:
            for j in jccs:
                spec = ["single", mode, a, c, j]
                if build(spec) is not None:
                    out.append(spec)
    return out


def multis(kinds, modes, m1, mids, m2):
    return [["multi", kind, mode, c1, j1, mid, c2, j2] for kind in kinds for mode in modes for (c1, j1) in m1 for mid in mids for (c2, j2) in m2]


def threes(modes, m1, mids, m2, m3):
    return [["multi", "three", mode, c1, j1, mid, c2, j2, c3, j3] for mode in modes for (c1, j1) in m1 for mid in mids for (c2, j2) in m2
            for (c3, j3) in m3]


ALL3 = ["branch", "code", "path"]
IN2 = [0x0, 0x80000000]
IN2M = [0x0, 0xFFFFFFFF]
IN4 = [0x0, 0x10, 0x80000000, 0xFFFFFFFF]
IN8 = [0x0, 0x1, 0x10, 0x20, 0x7FFFFFFF, 0x80000000, 0x80000001, 0xFFFFFFFF]
M1 = [("CMP $, 0x10", "JZ"), ("TEST $, 0x1", "JNZ"), ("CMP $, 0x80000000", "JL"), ("CMP $, 0x10", "JA")]
M2 = [("CMP $, 0x20", "JA"), ("TEST $, 0x2", "JZ"), ("CMP $, 0x13", "JNZ")]
M3 = [("CMP $, 0x80000000", "JG"), ("TEST $, 0x80", "JNZ")]
MIDS = ["none", "ADD $, 0x3"]


# stores relative to the symbolised buffer: (offset of the first byte, size in bits)
ST_START = [(-2, 32), (-1, 16), (-3, 32), (-1, 32)]
ST_END = [(2, 32), (3, 16), (1, 32), (3, 32)]
ST_IN = [(0, 32), (1, 16), (0, 8)]
ST_OUT = [(-4, 32), (4, 32)]
ST_COVER2 = [(-1, 32), (-2, 32), (-1, 16)]           # on a 2-byte buffer: covering it from below / straddling its start
INS = [0x0, 0x33333333]
BYTE_CMPS4 = [(8, k, c) for k in range(4) for c in (0x33, 0x7)]
BYTE_CMPS2 = [(8, k, c) for k in range(2) for c in (0x33, 0x7)]


def quick_straddles():
    return (straddles(4, ["const", "rmw"], ST_START[:2], [(8, 0, 0x33), (8, 3, 0x33)], ["JZ"])
            + straddles(4, ["const", "rmw"], ST_END[:2], [(8, 3, 0x33), (8, 0, 0x33)], ["JZ"])
            + straddles(2, ["const", "rmw"], ST_COVER2[:1], [(8, 0, 0x33), (8, 1, 0x33)], ["JZ"])
            + straddles(4, ["const"], ST_OUT[:1] + ST_IN[:1], [(8, 0, 0x33)], ["JZ"])
            + straddles(4, ["const"], ST_START[:1] + ST_END[:1], [(32, 0, 0x10)], ["JB"]))


DIV_BRANCHES = [("q", 0x0, "JL"), ("q", 0x3, "JZ"), ("r", 0x0, "JL"), ("r", 0x1C, "JZ"), ("q", 0x40, "JZ")]
DIV_BRANCHES_T = DIV_BRANCHES + [("q", 0x3, "JG"), ("q", 0xFFFFFFFD, "JZ"), ("r", 0x1C, "JB"), ("q", 0x0, "JZ")]
DIV_INPUTS = [0x0, 328, 0xFBD1, 0x7FFF, 0x8000]


def quick_divisions():
    return (divisions(["IDIV"], [8], [3, 100, -7], DIV_BRANCHES)
            + divisions(["IDIV"], [16], [100], DIV_BRANCHES[:2])
            + divisions(["DIV"], [8], [100], DIV_BRANCHES[1:2] + DIV_BRANCHES[3:]))


def quick_tables():
    return (tables([32, 16], [2, 4], ["load"], TAB_CLASSES, ["JZ"])
            + tables([8], [4], ["load"], ["last-entry", "no-entry"], ["JZ"])
            + tables([32], [4], ["direct"], ["last-entry-low-byte-only"], ["JZ"]))


TAB_INPUTS = [0x0, 0xFFFFFFFF]


def quick_groups():
    """(program specs, strategies, initial inputs) groups of the quick tier."""
    return [
        (quick_tables(), ["branch"], TAB_INPUTS),
        (quick_divisions(), ["branch"], [0x0, 328]),
        (quick_straddles(), ["branch"], INS),
        (singles("reg", ARITH[:5], CMPS[:4], JCCS[:6]), ["branch"], IN2),
        (singles("memdirect", ["none"], CMPS[:4], JCCS[:5]), ["branch"], IN2),
        (singles("memload", ["none", "ADD $, 0x3"], CMPS[:2], JCCS[:4]), ["branch"], IN2),
        (singles("meminplace", ["ADD $, 0x3", "XOR $, 0x55"], CMPS[:2], JCCS[:3]), ["branch"], IN2),
        (multis(["nested"], ["reg", "memdirect"], M1[:2], MIDS, M2[:2]), ALL3, IN2M),
        (multis(["seq", "nestedft"], ["reg", "memdirect"], M1[:2], MIDS, M2[:2]), ["branch", "path"], IN2M),
        (threes(["reg"], M1[:2], ["ADD $, 0x3"], M2[:1], M3) + threes(["memdirect"], M1[3:4], ["none"], M2[1:2], M3[:1]), ALL3, IN2M),
    ]


def gcc_groups():
    """The GCC backend compiles every 1-instruction block of every program (3-20 s per program): a small sub-lattice."""
    return [
        (singles("reg", ARITH[:2], CMPS[:2], JCCS[:2]), ["branch"], IN2),
        (singles("memdirect", ["none"], CMPS[:1], JCCS[:2]), ["branch"], IN2),
        (singles("meminplace", ["ADD $, 0x3"], CMPS[:1], JCCS[:2]), ["branch"], IN2),
        (multis(["nested"], ["reg"], M1[:1], MIDS, M2[:1]), ALL3, IN2M),
        (threes(["reg"], M1[:1], ["ADD $, 0x3"], M2[:1], M3[:1]), ALL3, IN2M),
        (straddles(4, ["const", "rmw"], ST_START[:1], [(8, 0, 0x33)], ["JZ"]), ["branch"], INS),
    ]


def plan(tier):
    """Ordered list of jobs (spec, backend, strategies, inputs). Everything a tier runs is listed here."""
    jobs = []
    if tier == "quick":
        for specs, strats, ins in quick_groups():
            jobs += [(s, "python", strats, ins) for s in specs]
        return jobs
    core = singles("reg", ARITH[:5], CMPS[:4], JCCS[:7])
    groups = [
        (core, ["branch"], IN8),
        (core[:35], ALL3, IN4),
        ([s for s in singles("reg", ARITH, CMPS, JCCS) if s not in core], ["branch"], IN2),
        (singles("memdirect", ["none"], CMPS, JCCS), ["branch"], IN2),
        (singles("memload", ["none", "ADD $, 0x3", "SHL $, 1"], CMPS[:4], JCCS[:7]), ["branch"], IN2),
        (singles("meminplace", ["ADD $, 0x3", "XOR $, 0x55", "SHL $, 1", "NEG $"], CMPS[:4], JCCS[:7]), ["branch"], IN2),
        (multis(["nested", "seq", "nestedft"], ["reg", "memdirect"], M1, MIDS, M2), ALL3, IN2M),
        (multis(["nested"], ["memload"], M1[:2], MIDS, M2[:2]), ALL3, IN4),
        (threes(["reg", "memdirect"], M1[:3], MIDS, M2[:2], M3) + threes(["memdirect"], M1[3:4], ["none"], M2[1:2], M3[:1]), ALL3, IN2M),
        (quick_tables(), ["branch"], TAB_INPUTS),
        ([x for x in tables([32, 16, 8], [2, 4], ["load", "direct"], TAB_CLASSES, ["JZ", "JNZ"]) if x not in quick_tables()], ["branch"],
         TAB_INPUTS + [0x1]),
        (tables([32, 16], [4], ["load"], TAB_CLASSES, ["JZ"]), ["code", "path"], TAB_INPUTS),
        (quick_divisions(), ["branch"], DIV_INPUTS),
        ([x for x in divisions(["IDIV", "DIV"], [8, 16], [3, 100, -7], DIV_BRANCHES_T) if x not in quick_divisions()], ["branch"], DIV_INPUTS),
        (divisions(["IDIV"], [8, 16], [100, -7], DIV_BRANCHES[:2]), ["code", "path"], [328, 0x8000]),
        (quick_straddles(), ["branch"], INS),
        ([x for x in straddles(4, ["const", "rmw"], ST_START + ST_END + ST_IN + ST_OUT, BYTE_CMPS4, ["JZ"])
          + straddles(2, ["const", "rmw"], ST_COVER2, BYTE_CMPS2, ["JNZ"])
          + straddles(4, ["const", "rmw"], ST_START + ST_END, [(32, 0, 0x10), (16, 1, 0x3322), (16, 2, 0x3333)], ["JB", "JZ"])
          if x not in quick_straddles()], ["branch"], INS),
        (straddles(4, ["const", "rmw"], ST_START[:2] + ST_END[:2], [(8, 0, 0x33), (8, 3, 0x33)], ["JZ"]), ["code", "path"], INS),
    ]
    for specs, strats, ins in groups:
        jobs += [(s, "python", strats, ins) for s in specs]
    for specs, strats, ins in gcc_groups():
        jobs += [(s, "gcc", strats, ins) for s in specs]
    return jobs


def programs(tier):
    seen = []
    for spec, be, strats, ins in plan(tier):
        if spec not in seen:
            seen.append(spec)
    return seen


# ------------------------------------------------------------------ running

_st = {}


def _load():
    from mc import jitx
    jitx.activate(["JitCore_x86"])
    if "/verif/.deps" not in sys.path:
        sys.path.insert(0, "/verif/.deps")
    import z3  # noqa: F401  (must be importable before miasm.analysis.dse is imported)
    import miasm.analysis.dse as dse_mod
    if dse_mod.z3 is None:
        raise RuntimeError("miasm.analysis.dse was imported without z3")


def _mn():
    if "mn" not in _st:
        from miasm.analysis.machine import Machine
        from miasm.core.locationdb import LocationDB
        _st["machine"] = Machine("x86_32")
        _st["mn"] = _st["machine"].mn
        _st["asm_loc_db"] = LocationDB()
    return _st["mn"]


def _pick(cands, length=None):
    """Deterministic choice among miasm's candidate encodings: no operand/address-size prefix, shortest, then lowest."""
    cands = [c for c in cands if length is None or len(c) == length]
    plain = [c for c in cands if c[:1] not in (b"\x66", b"\x67")]
    if not plain:
        # 16-bit operands need the operand-size prefix; the address-size prefix is never wanted
        plain = [c for c in cands if c[:1] == b"\x66" and c[1:2] != b"\x67"]
    cands = plain
    if not cands:
        raise RuntimeError("no plain encoding")
    return min(cands, key=lambda c: (len(c), c))


def asm_line(text):
    """Bytes of one non-branching instruction, by miasm's assembler (cached by text: parsing a line costs ~0.1 s)."""
    key = ("line", text)
    if key not in _st:
        mn = _mn()
        instr = mn.fromstring(text, _st["asm_loc_db"], 32)
        _st[key] = _pick(mn.asm(instr))
    return _st[key]


def asm_branch(mnemo, addr, target):
    """Short (rel8) form of a branch: opcode byte from miasm's assembler (cached by mnemonic), displacement filled in here."""
    key = ("branch", mnemo)
    if key not in _st:
        mn = _mn()
        instr = mn.fromstring("%s 0x1010" % mnemo, _st["asm_loc_db"], 32)
        instr.offset, instr.l = 0x1000, 2
        instr.fixDstOffset()
        enc = _pick(mn.asm(instr), 2)
        if enc[1] != 0x0E:
            raise RuntimeError("unexpected short branch encoding %s" % enc.hex())
        _st[key] = enc[:1]
    rel = target - (addr + 2)
    if not -128 <= rel <= 127:
        raise RuntimeError("branch out of rel8 range")
    return _st[key] + bytes([rel & 0xFF])


def assemble_program(src, base):
    """Lay the program out in source order. Returns (bytes, {label: address}, [instruction addresses]).
    The result is checked by disassembling it again with miasm (lengths chain up, every branch lands on its label)."""
    items = []
    for raw in src.splitlines():
        line = raw.strip()
        if not line:
            continue
        if line.endswith(":"):
            items.append(("label", line[:-1]))
        elif line[0] == "J":
            mnemo, lbl = line.split()
            items.append(("br", mnemo, lbl))
        else:
            items.append(("ins", line))
    labels = {}
    offs = []
    addr = base
    for it in items:
        if it[0] == "label":
            labels[it[1]] = addr
        else:
            offs.append(addr)
            addr += 2 if it[0] == "br" else len(asm_line(it[1]))
    code = b""
    want_dst = {}
    for it in items:
        a = base + len(code)
        if it[0] == "ins":
            code += asm_line(it[1])
        elif it[0] == "br":
            code += asm_branch(it[1], a, labels[it[2]])
            want_dst[a] = labels[it[2]]
    mn = _mn()
    pos = 0
    got = []
    while pos < len(code):
        ins = mn.dis(code[pos:pos + 16], 32, 0)
        got.append(base + pos)
        if base + pos in want_dst:
            dst = (base + pos + int(ins.args[0])) & 0xFFFFFFFF   # mn.dis: destination relative to the instruction start
            if dst != want_dst[base + pos]:
                raise RuntimeError("harness: branch at %#x lands on %#x, label is at %#x" % (base + pos, dst, want_dst[base + pos]))
        pos += ins.l
    if got != offs:
        raise RuntimeError("harness: disassembly %s does not chain like the layout %s" % (got, offs))
    return code, labels, offs


def assembled(spec):
    key = tuple(spec)
    if key not in _st:
        src = build(spec)
        code, labels, offs = assemble_program(src, CODE)
        _st[key] = (src, code, labels, offs)
    return _st[key]


def data_page(inp, spec):
    from mc import jitprog as jp
    data = bytearray((i * 7 + 3) & 0xFF for i in range(jp.DATA_SIZE))
    buf = spec_buf(spec)
    if buf is not None:
        off = buf[0] - DATA
        data[off:off + buf[1]] = inp.to_bytes(4, "little")[:buf[1]]
    if spec[0] == "table":
        width, n = spec[1], spec[2]
        for i, e in enumerate(TAB_ENTRIES[width][:n]):
            o = TAB - DATA + i * (width // 8)
            data[o:o + width // 8] = e.to_bytes(width // 8, "little")
    return bytes(data)


def start_regs(inp, spec):
    return {"EAX": inp if spec_buf(spec) is None else 0x11111111, "EBX": 0, "ECX": 0, "EDX": 0}


def dse_run(spec, backend, strat, inp):
    """Returns (trace, dse, error) - error is None or (kind, text)."""
    import traceback
    from mc import jitx, jitprog as jp
    from miasm.analysis.dse import DSEPathConstraint, DriftException
    from miasm.analysis.machine import Machine
    from miasm.core.interval import interval
    from miasm.expression.expression import ExprId
    src, code, labels, offs = assembled(spec)
    mode = spec_mode(spec)
    jit = jitx.fresh("x86_32", backend)
    jp.setup(jit, code, regs=start_regs(inp, spec), data=data_page(inp, spec))
    jit.init_run(CODE)
    _mn()
    if "dse_cls" not in _st:
        class RecordingDSE(DSEPathConstraint):
            """handle_solution is the documented extension point: also keep the assertions the model was asked for."""
            def handle_solution(self, model, destination):
                if not hasattr(self, "asked"):
                    self.asked = {}
                self.asked[self._key_for_solution_strategy(destination)] = list(self.cur_solver.assertions())
                return super(RecordingDSE, self).handle_solution(model, destination)
        _st["dse_cls"] = RecordingDSE
    dse = _st["dse_cls"](_st["machine"], jit.lifter.loc_db, produce_solution=STRATS[strat])
    dse.asked = {}
    dse.attach(jit)
    dse.update_state_from_concrete()
    if mode == "reg":
        dse.update_state({dse.lifter.arch.regs.EAX: ExprId("INPUT", 32)})
    else:
        buf = spec_buf(spec)
        dse.symbolize_memory(interval([(buf[0], buf[0] + buf[1] - 1)]))
    trace = []
    inner = jit.exec_cb

    def exec_cb(j):
        trace.append(j.pc)
        if len(trace) > MAX_TRACE:
            j.running = False
            return "budget"
        return inner(j)
    jit.exec_cb = exec_cb
    dse.add_handler(END, lambda d: None)

    def end_cb(j):
        j.running = False
        return False
    jit.add_breakpoint(END, end_cb)
    err = None
    try:
        jit.continue_run()
    except DriftException as e:
        err = ("drift", str(e).replace("\n", " "))
    except Exception as e:
        tb = traceback.extract_tb(sys.exc_info()[2])
        where = "%s:%s" % (tb[-1].filename.split("/")[-1], tb[-1].name) if tb else "?"
        err = ("raise:%s@%s" % (type(e).__name__, where), "%s: %s" % (type(e).__name__, e))
    if err is None and (not trace or trace[-1] != END):
        err = ("no-end", "run stopped at %s without reaching the return sentinel" % (hex(trace[-1]) if trace else None))
    return trace, dse, err


def fresh_trace(spec, backend, inp):
    key = ("fresh", tuple(spec), backend, inp)
    if key not in _st:
        from mc import jitx, jitprog as jp
        src, code, labels, offs = assembled(spec)
        mode = spec_mode(spec)
        jit = jitx.fresh("x86_32", backend, jit_maxline=1, max_exec_per_call=1)
        jp.setup(jit, code, regs=start_regs(inp, spec), data=data_page(inp, spec))
        obs = jp.run(jit, CODE, max_dispatch=MAX_TRACE)
        _st[key] = (list(obs.dispatch), obs.stopped, obs.error)
    return _st[key]


def model_input(model, spec):
    import z3
    buf = spec_buf(spec)
    if buf is None:
        return model.eval(z3.BitVec("INPUT", 32), model_completion=True).as_long()
    v = 0
    for i in range(buf[1]):
        v |= model.eval(z3.BitVec("MEM_0x%x" % (buf[0] + i), 8), model_completion=True).as_long() << (8 * i)
    return v


def key_addrs(loc_db, key):
    """Addresses named by a solution key (ExprLoc / ExprInt / None, alone or in a tuple)."""
    def one(e):
        if e is None:
            return None
        if e.is_loc():
            return loc_db.get_location_offset(e.loc_key)
        return int(e)
    if isinstance(key, tuple):
        return [one(e) for e in key]
    return [one(key)]


def _hx(seq):
    return "[%s]" % ",".join("None" if x is None else "%#x" % x for x in seq)


def writes_cell(spec):
    """The program modifies the symbolised memory cell in place before (one of) its compares."""
    if spec[0] == "single":
        return spec[1] == "meminplace"
    if spec[0] in ("straddle", "division", "table"):
        return False
    return spec[2] in ("memdirect", "meminplace") and spec[5] != "none"


def skeleton(spec):
    """Signature skeleton of a program: structure, input mode and either the class "the symbolised cell is rewritten in
    place" or the instruction mnemonics (never the constants)."""
    if spec[0] == "straddle":
        where, what = straddle_class(spec)
        return "straddle/buf%d/%s-store-%s/branch-on-%s" % (spec[1], spec[2], where, what)
    if spec[0] == "table":
        return "table/w%d/n%d/%s/compare-with-%s/%s" % (spec[1], spec[2], spec[3], spec[4], spec[5])
    if spec[0] == "division":
        _, op, width, divisor, part, cconst, jcc = spec
        return "division/%s%d/%s-divisor/%s-%s" % (op, width, "negative" if divisor < 0 else "positive",
                                                   "quotient" if part == "q" else "remainder", jcc)
    kind = "single" if spec[0] == "single" else spec[1]
    mode = spec_mode(spec)
    if writes_cell(spec):
        return "%s/%s/symbolised-cell-rewritten-in-place" % (kind, mode)
    if spec[0] == "single":
        _, mode, a, c, j = spec
        return "single/%s/%s/%s/%s" % (mode, a.split()[0].lower(), c.split()[0], j)
    parts = [spec[3].split()[0], spec[4], spec[5].split()[0].lower(), spec[6].split()[0], spec[7]]
    if kind == "three":
        parts += [spec[8].split()[0], spec[9]]
    return "%s/%s/%s" % (kind, mode, "-".join(parts))


def accepts(assertions, spec, value):
    """Do the solver's assertions hold for the concrete input @value?  Closed-term folding only: the input symbols are
    replaced by constants and the term is simplified; anything that does not fold to true counts as "no"."""
    import z3
    buf = spec_buf(spec)
    if buf is None:
        pairs = [(z3.BitVec("INPUT", 32), z3.BitVecVal(value, 32))]
    else:
        pairs = [(z3.BitVec("MEM_0x%x" % (buf[0] + i), 8), z3.BitVecVal((value >> (8 * i)) & 0xFF, 8)) for i in range(buf[1])]
    return all(z3.is_true(z3.simplify(z3.substitute(a, *pairs))) for a in assertions)


def check_one(spec, backend, strat, inp, probe=None):
    """One (program, backend, strategy, initial input). Returns (violations, info).
    probe = {"key": addresses, "input": value} (replay only): which model the solver returns depends on the history of
    its context, so a replay process may be handed another (valid) model for the same branch. The recorded input is then
    judged against THIS run's solver state for that branch: if the assertions under which the DSE asked for a model
    accept it and the fresh run with it does not take the branch, the violation is reproduced."""
    src, code, labels, offs = assembled(spec)
    mode = spec_mode(spec)
    case = {"spec": spec, "backend": backend, "strategy": strat, "input": inp}
    ptxt = "program {%s } [%s, %s coverage, input %s = %#x]" % (" ;".join(l.strip() for l in src.splitlines()), backend, strat,
                                                                 "EAX" if spec_buf(spec) is None else "@%d[%#x]" % (8 * spec_buf(spec)[1], spec_buf(spec)[0]), inp)
    sk = skeleton(spec)
    info = {"runs": 1, "errors": 0, "solutions": 0, "solutions_valid": 0, "constraints": 0, "nontrivial": 0, "fresh_runs": 0,
            "solutions_into_generated_blocks": 0, "inputs_skipped_program_faults": 0}
    vs = []
    if spec[0] == "division":
        # x86 division faults (#DE) when the quotient does not fit: such an initial input is not a run of the property
        fkey = ("fresh", tuple(spec), backend, inp)
        if fkey not in _st:
            info["fresh_runs"] += 1
        ftrace, stopped, ferr = fresh_trace(spec, backend, inp)
        if stopped != "end" or ferr:
            info["inputs_skipped_program_faults"] = 1
            return vs, info
    trace, dse, err = dse_run(spec, backend, strat, inp)
    if err is not None:
        info["errors"] += 1
        vs.append(violation("dse-run:%s:%s:%s" % (err[0], sk, strat), "%s: %s; trace %s" % (ptxt, err[1], _hx(trace)), case))
    info["constraints"] = len(dse.cur_solver.assertions())
    sols = list(dse.new_solutions.items())
    info["solutions"] = len(sols)
    if sols or info["constraints"]:
        info["nontrivial"] = 1
    loc_db = dse.lifter.loc_db
    for key, model in sols:
        addrs = key_addrs(loc_db, key)
        try:
            newinp = model_input(model, spec)
        except Exception as e:
            vs.append(violation("solution:model-unreadable:%s:%s" % (type(e).__name__, sk), "%s: solution %s: %r" % (ptxt, _hx(addrs), e), case))
            continue
        if addrs[-1] is None:
            # destination = an IR block generated inside one instruction (e.g. the #DE arm of IDIV): it has no address,
            # the dispatch trace cannot show whether it was entered
            info["solutions_into_generated_blocks"] += 1
            continue
        fkey = ("fresh", tuple(spec), backend, newinp)
        if fkey not in _st:
            info["fresh_runs"] += 1
        ftrace, stopped, ferr = fresh_trace(spec, backend, newinp)
        real = [x for x in addrs if x is not None]      # generated blocks on the way are invisible in the trace
        if strat == "code":
            ok = addrs[0] in ftrace
            want = "reach %#x" % addrs[0]
        elif strat == "branch":
            if addrs[0] is None:
                ok = addrs[1] in ftrace
                want = "reach %#x (from a generated block)" % addrs[1]
            else:
                ok = any(ftrace[i] == addrs[0] and ftrace[i + 1] == addrs[1] for i in range(len(ftrace) - 1))
                want = "go from %s to %s" % (_hx(addrs[:1]), _hx(addrs[1:]))
        else:
            ok = ftrace[:len(real)] == real
            want = "start with the path %s" % _hx(real)
        if ok:
            info["solutions_valid"] += 1
        else:
            side = "any-arm" if writes_cell(spec) or spec[0] == "straddle" else ("taken-arm" if addrs[-1] in labels.values() else "fallthrough-arm")
            vs.append(violation("solution:branch-not-taken:%s:%s:%s" % (sk, strat, side),
                                "%s: DSE trace %s; new solution for %s gives input %#x, but a fresh run with it has the trace %s (should %s)%s" % (
                                    ptxt, _hx(trace), _hx(addrs), newinp, _hx(ftrace), want, "; fresh run error: %s" % ferr if ferr else ""),
                                dict(case, solution={"key": addrs, "input": newinp})))
    if probe is not None and not vs:
        for key, model in sols:
            addrs = key_addrs(loc_db, key)
            if addrs != list(probe["key"]) or key not in dse.asked:
                continue
            pin = probe["input"]
            if not accepts(dse.asked[key], spec, pin):
                continue
            ftrace, stopped, ferr = fresh_trace(spec, backend, pin)
            real = [x for x in addrs if x is not None]
            if strat == "code":
                ok = addrs[0] in ftrace
            elif strat == "branch":
                ok = addrs[1] in ftrace if addrs[0] is None else any(ftrace[i] == addrs[0] and ftrace[i + 1] == addrs[1] for i in range(len(ftrace) - 1))
            else:
                ok = ftrace[:len(real)] == real
            if not ok:
                side = "any-arm" if writes_cell(spec) or spec[0] == "straddle" else ("taken-arm" if addrs[-1] in labels.values() else "fallthrough-arm")
                vs.append(violation("solution:branch-not-taken:%s:%s:%s" % (sk, strat, side),
                                    "%s: DSE trace %s; the assertions under which the DSE asked the solver for an input reaching %s accept the input %#x "
                                    "(the model recorded by the enumeration; this process was handed %#x), but a fresh run with it has the trace %s" % (
                                        ptxt, _hx(trace), _hx(addrs), pin, model_input(model, spec), _hx(ftrace)), dict(case, solution=dict(probe))))
    return vs, info


# ------------------------------------------------------------------ sharding

def _shard(args):
    tier, lo, hi = args
    _load()
    js = plan(tier)[lo:hi]
    tot = {}
    vs = []
    sigs = {}
    sample = None
    outcomes = set()
    for spec, be, strats, ins in js:
        for strat in strats:
            for inp in ins:
                v, info = check_one(spec, be, strat, inp)
                for k, x in info.items():
                    tot[k] = tot.get(k, 0) + x
                tot["runs_" + be] = tot.get("runs_" + be, 0) + 1
                tot["runs_" + strat] = tot.get("runs_" + strat, 0) + 1
                tot["runs_with_%d_solutions" % min(info["solutions"], 3)] = tot.get("runs_with_%d_solutions" % min(info["solutions"], 3), 0) + 1
                outcomes.add((info["solutions"], info["constraints"]))
                for x in v:
                    sigs[x["sig"]] = sigs.get(x["sig"], 0) + 1
                    if sigs[x["sig"]] <= 1:
                        vs.append(x)
                if sample is None and info["solutions"] >= 2:
                    sample = {"spec": spec, "backend": be, "strategy": strat, "input": inp, "solutions": info["solutions"]}
        # the per-program caches are not needed any more
        for k in [k for k in _st if isinstance(k, tuple) and k and k[0] == "fresh" and k[1] == tuple(spec) and k[2] == be]:
            del _st[k]
    return len(js), tot, vs, sample, sigs, sorted(outcomes)


NSHARDS = 32
CHILDREN = 6


def _shard_group(group):
    return [_shard(s) for s in group]



def run(ctx):
    try:
        return _run(ctx)
    except Exception:
        import traceback
        traceback.print_exc(file=sys.stdout)     # fd 2 is silenced (C runtime chatter)
        raise


def _run(ctx):
    _load()
    js = plan(ctx.tier)
    n = len(js)
    # a shard is a contiguous slice of the plan (programs of one family share 1-instruction blocks in the GCC cache)
    step = max(1, -(-n // NSHARDS))
    shards = [(ctx.tier, lo, min(n, lo + step)) for lo in range(0, n, step)]
    # warm the parent before forking: parsing an assembly line costs ~0.1 s, the first DSE run imports and initialises a lot
    for spec, be, strats, ins in js:
        assembled(spec)
    dse_run(js[0][0], "python", "branch", 0)
    # Every jitter instance keeps ~0.5 MB of native memory for the life of the process. The quick tier creates ~950 of them
    # (fine in one process); the thorough tier ~7500: when mc/adaptive would run everything in this process (oversubscribed
    # machine), the shards are run in a few forked children, one after the other, so that the memory goes back in between
    # (a fork per shard costs more than it saves on a loaded machine: 6 children).
    if not ctx.quick and ctx.nproc > 1 and len(shards) > 1 and adaptive.oversubscribed():
        import multiprocessing as mp
        per = -(-len(shards) // CHILDREN)
        groups = [shards[i:i + per] for i in range(0, len(shards), per)]
        with mp.get_context("fork").Pool(1, maxtasksperchild=1) as pool:
            res = [r for part in pool.map(_shard_group, groups, 1) for r in part]
        schedule = "%d forked children, sequential" % len(groups)
    else:
        res, schedule = adaptive.amap(ctx, _shard, shards)
    tot = {}
    sigcount = {}
    outcomes = set()
    for r in res:
        ctx.add_violations(r[2])
        for k, v in r[1].items():
            tot[k] = tot.get(k, 0) + v
        for k, v in r[4].items():
            sigcount[k] = sigcount.get(k, 0) + v
        outcomes |= set(tuple(x) for x in r[5])
    progs = programs(ctx.tier)
    cov = {
        "evaluations": tot.get("runs", 0),
        "distinct_nontrivial": tot.get("nontrivial", 0),
        "programs": len(progs),
        "programs_by_family": {k: sum(1 for s in progs if (s[0] if s[0] == "single" else s[1]) == k) for k in ("single", "seq", "nested", "nestedft", "three", "straddle", "division", "table")},
        "programs_by_input_mode": {m: sum(1 for s in progs if spec_mode(s) == m) for m in MODES},
        "dse_runs_with_error": tot.get("errors", 0),
        "path_constraints_recorded": tot.get("constraints", 0),
        "solutions_produced": tot.get("solutions", 0),
        "solutions_replayed_valid": tot.get("solutions_valid", 0),
        "solutions_into_generated_ir_blocks_not_replayable": tot.get("solutions_into_generated_blocks", 0),
        "initial_inputs_skipped_division_faults": tot.get("inputs_skipped_program_faults", 0),
        "fresh_jitter_runs": tot.get("fresh_runs", 0),
        "distinct_outcomes": len(outcomes),
        "violating_runs_by_signature": sigcount,
        "samples": [r[3] for r in res if r[3]][:4],
        "exhaustive": True,
        "schedule": schedule,
        "jobs(program,backend)": n,
        "bounds": {"groups(programs,backend,strategies,inputs)": groups_text(js),
                   "backends": ["python"] if ctx.quick else ["python", "gcc (a sub-lattice, see groups)"], "max_branches": 3,
                   "arith": ARITH, "compares": CMPS, "jcc": JCCS, "modes": MODES},
    }
    for k, v in tot.items():
        if k.startswith("runs_"):
            cov[k] = v
    return cov


def groups_text(js):
    out = []
    for spec, be, strats, ins in js:
        fam = "%s/%s" % (spec[0] if spec[0] == "single" else spec[1], spec_mode(spec))
        key = [fam, be, list(strats), [hex(x) for x in ins]]
        if out and out[-1][1:] == key:
            out[-1][0] += 1
        else:
            out.append([1] + key)
    return out


def replay(case):
    _load()
    return check_one(list(case["spec"]), case["backend"], case["strategy"], case["input"], probe=case.get("solution"))[0]
