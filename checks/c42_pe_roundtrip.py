"""C42 - PE images round-trip through build and parse.

Engine E2 (bounded-exhaustive enumeration of a finite lattice of generated images, mc/pegen.py).

Every image is created through the loader API only (PE(), SHList.add_section, DirImport.add_dlldesc/set_rva,
DirExport.create/add_name/set_rva, DirReloc.add_reloc/set_rva, header attributes). For each one:

  gen 0  p = the API object, b0 = bytes(p)
  gen 1  q = PE(b0)      must show the headers, section table, section contents, imports, exports and relocations
                         that were asked for (compared with p *and* with a model computed from the spec alone)
         address maps    off2rva/rva2off, rva2virt/virt2rva (and the composed virt2off/off2virt) at the first and last
                         file-backed byte of every section
         virtual writes  q.virt.set / q.rva.set at the first/last file-backed byte read back at once (neighbours intact)
         reloc_to        twice (one negative, then one positive base delta; the words are chosen to cross 0, 2^31 and 2^32): every relocated 32-bit word moves by exactly
                         the delta (mod 2^32), nothing else in any section moves, ImageBase is the new base
  gen 2  r = PE(bytes(q)) must equal q (the image *modified* through the API): headers, section table and contents,
                         imports, exports, relocations; the written bytes and relocated words are there
         finally, on r, a virtual write at the last *virtual* byte of sections whose virtual size exceeds the raw
         size reads back (not serialised afterwards: such a byte has no place in the file).

What is deliberately not demanded: CheckSum (defined by the builder), byte identity of bytes(q) and bytes(p) (counted),
address identities outside the file-backed part of a section, anything about zero-sized (virtual size 0) sections
beyond their header fields.  API calls that raise while the image is being *created* are counted as refusals.
"""
import logging
import struct

from mc import pegen
from mc.runner import violation

PROP = "C42"
LEVEL = "exploration"
ENGINE = "enum"
RULE = ("complete product lattice: wsize x header-menu x 1..3 content sections with (raw size, virtual size) from "
        "{0,1,0x1FF,0x200,0x201,0x1000}^2 x import menu x export menu x relocation menu; one case = one spec "
        "(index addressable); non-trivial = the image has a section whose raw and virtual sizes differ or are not "
        "multiples of the file alignment, or carries at least one data directory (so a trivial case is a plain "
        "aligned image without imports, exports and relocations)")
LEVEL_TEXT = ("Bounded-exhaustive: every image of the stated lattice is built through the real loader API, serialised, "
              "parsed, modified (virtual writes, two relocations), serialised and parsed again; each generation is "
              "compared field by field with the previous one and with a model computed from the spec alone.")
LEVEL_NOTE = ("Trusted: the spec->model function in mc/pegen.py and Python's struct. Not covered: resources, delay "
              "imports, TLS, relocation types other than HIGHLOW, sections listed out of address order, images not "
              "created by this loader (foreign linkers).")
TECHNIQUE = "bounded-exhaustive enumeration of generated PE images with a spec-derived model and generation-to-generation comparison"
ASSUMPTIONS = [
    "section virtual sizes are set by assigning the section header field after add_section (add_section itself "
    "forces a virtual size >= 0x1000)",
    "a freshly created PE has DirReloc.reldesc = None and a None directory size, on which add_reloc raises; the "
    "generator initialises both to the empty directory before calling add_reloc (counted as add_reloc_needs_init)",
    "relocated words are 32-bit HIGHLOW entries; a shift is exact modulo 2^32",
]

DELTAS = (-0x11000, 0x123000)

HDR_STRUCTS = ("Doshdr", "NTsig", "Coffhdr", "Opthdr", "NThdr")
HDR_SKIP = {("NThdr", "CheckSum"), ("NThdr", "optentries")}
SHDR_FIELDS = ("name", "size", "addr", "rawsize", "offset", "pointertorelocations", "pointertolinenumbers",
               "numberofrelocations", "numberoflinenumbers", "flags")


def _quiet():
    for n in ("peparse", "pepy"):
        logging.getLogger(n).setLevel(logging.CRITICAL)


def _norm(v):
    if v is None:
        return 0
    if isinstance(v, str):
        v = v.encode()
    if isinstance(v, bytes):
        return v.rstrip(b"\x00") or 0
    return v


def hdr_view(pe):
    out = {}
    for sname in HDR_STRUCTS:
        st = getattr(pe, sname)
        for f in st._fields:
            if (sname, f[0]) in HDR_SKIP:
                continue
            out[(sname, f[0])] = _norm(getattr(st, f[0]))
    for i, e in enumerate(pe.NThdr.optentries):
        out[("dir%d" % i, "rva")] = _norm(e.rva)
        out[("dir%d" % i, "size")] = _norm(e.size)
    return out


def sh_view(pe):
    return [tuple(_norm(getattr(s, f)) for f in SHDR_FIELDS) for s in pe.SHList.shlist]


def imp_view(pe):
    d = pe.DirImport
    if d is None or d.impdesc is None:
        return []
    out = []
    for (desc, funcs) in d.get_dlldesc():
        out.append((_norm(desc["name"]), desc["firstthunk"], [_norm(f) for f in funcs]))
    return out


def exp_view(pe):
    d = pe.DirExport
    if d is None or d.expdesc is None:
        return None
    e = d.expdesc
    return {
        "dll": _norm(d.dlldescname.name),
        "base": e.base, "nfunc": e.numberoffunctions, "nnames": e.numberofnames,
        "addresses": [a.rva for a in d.f_address],
        "names": [_norm(n.name.name) for n in d.f_names],
        "ordinals": [o.ordinal for o in d.f_nameordinals],
    }


def rel_view(pe):
    d = pe.DirReloc
    if d is None or d.reldesc is None:
        return []
    return [(x.rva, x.size, [tuple(r.rel) for r in x.rels]) for x in d.reldesc]


def rel_targets(view):
    out = []
    for rva, _, rels in view:
        for t, off in rels:
            if t == 0 and off == 0:
                continue
            out.append((t, rva + off))
    return sorted(out)


def sec_class(m):
    """Skeleton of one model section: relation of raw and virtual size and alignment class of the raw size."""
    raw, virt = m["raw"], m["virt"]
    if virt == 0:
        rel = "virt0"
    elif raw == 0:
        rel = "raw0"
    elif raw < virt:
        rel = "raw<virt"
    elif raw == virt:
        rel = "raw=virt"
    else:
        rel = "raw>virt"
    al = "aligned" if raw % 0x200 == 0 else "unaligned"
    return rel + "/" + al


def raw_section_table(b):
    """Independent reading of the section table of serialised bytes (struct only)."""
    lfanew = struct.unpack_from("<I", b, 0x3c)[0]
    nsec, = struct.unpack_from("<H", b, lfanew + 4 + 2)
    optsz, = struct.unpack_from("<H", b, lfanew + 4 + 16)
    off = lfanew + 4 + 20 + optsz
    out = []
    for i in range(nsec):
        name, size, addr, rawsize, offset, prel, plin, nrel, nlin, flags = struct.unpack_from("<8sIIIIIIHHI", b, off + 40 * i)
        out.append((name.rstrip(b"\x00"), size, addr, rawsize, offset, prel, plin, nrel, nlin, flags))
    return out, off + 40 * nsec


def table_guard(ck, stage, pe_obj, b, model=None):
    """Independent look at the serialised bytes before they are handed to the parser (a clobbered section table
    makes the parser allocate gigabytes): the section table inside the bytes must be the object's section table, and
    the file-backed bytes of every content section must sit at the section's file offset."""
    try:
        raw, end = raw_section_table(b)
    except struct.error as e:
        ck.bad(stage, "section-table-unreadable", "section table of the serialised image cannot be read: %r" % (e,))
        return False
    want = sh_view(pe_obj)
    shs = pe_obj.SHList.shlist
    first_off = min((s.offset for s in shs if s.rawsize), default=0)
    overlap = end > first_off
    # one root cause, one signature: the table is laid over section data (whichever of the two is then seen damaged)
    overlap_sig = "%s:section-table-overlaps-section-data:w%d" % (stage, ck.spec[0])
    if raw != want:
        k = next((i for i in range(min(len(raw), len(want))) if raw[i] != want[i]), min(len(raw), len(want)))
        (ck.bad_sig if overlap else ck.bad)(*((overlap_sig,) if overlap else (stage, "section-table-clobbered:no-overlap")),
               "section table occupies file offsets up to %#x but section data starts at file offset %#x: header %d "
               "serialised as %r, the object says %r" % (end, first_off, k, raw[k] if k < len(raw) else None,
                                                       want[k] if k < len(want) else None))
        return False
    ok = True
    if model is not None:
        for i, m in enumerate(model["sections"]):
            s = shs[i]
            n = m["backed"]
            if n and bytes(b[s.offset:s.offset + n]) != m["vdata"][:n]:
                got = bytes(b[s.offset:s.offset + n])
                k = next(j for j in range(n) if got[j] != m["vdata"][j])
                under = s.offset + k < end
                (ck.bad_sig if (under and overlap) else ck.bad)(*((overlap_sig,) if (under and overlap) else (stage, "section-data-misplaced:" + sec_class(m))),
                       "file-backed bytes of section %d (file offset %#x, %#x bytes) are not in the serialised image: "
                       "at +%#x %r instead of %r; the section table ends at file offset %#x" % (
                           i, s.offset, n, k, got[k:k + 8], m["vdata"][k:k + 8], end))
                ok = False
                break
        if ok and end > first_off:
            # the table lies over the directory section (every content section is empty)
            ck.bad_sig(overlap_sig,
                   "section table occupies file offsets up to %#x but the data of the directory section starts at "
                   "file offset %#x" % (end, first_off))
            ok = False
    return ok


def _secdata(pe):
    return [bytes(s.data) for s in pe.SHList.shlist]


class Ck(object):
    def __init__(self, spec):
        self.spec = spec
        self.vs = []
        self.base_sig = "w%d/%s" % (spec[0], pegen.HDR_NAMES[spec[1]])

    def bad_sig(self, sig, what):
        self.vs.append(violation(sig, "%s [spec %r]" % (what, self.spec), {"spec": self.spec}))

    def bad(self, stage, skel, what):
        self.vs.append(violation("%s:%s:%s" % (stage, skel, self.base_sig),
                                 "%s [spec %r]" % (what, self.spec), {"spec": self.spec}))


def compare_struct(ck, stage, a, b, a_name, b_name, model=None):
    """Compare the structured views of two generations (a older, b newer)."""
    ha, hb = hdr_view(a), hdr_view(b)
    for k in sorted(ha):
        if ha[k] != hb.get(k):
            ck.bad(stage, "header:%s.%s" % k, "%s.%s is %r in %s but %r in %s" % (k[0], k[1], ha[k], a_name, hb.get(k), b_name))
    sa, sb = sh_view(a), sh_view(b)
    if len(sa) != len(sb):
        ck.bad(stage, "section-count", "%d sections in %s, %d in %s" % (len(sa), a_name, len(sb), b_name))
    for i, (x, y) in enumerate(zip(sa, sb)):
        for f, u, v in zip(SHDR_FIELDS, x, y):
            if u != v:
                cls = sec_class(model["sections"][i]) if model and i < len(model["sections"]) else "dirs"
                ck.bad(stage, "shdr.%s:%s" % (f, cls), "section %d %s is %r in %s but %r in %s" % (i, f, u, a_name, v, b_name))
    if imp_view(a) != imp_view(b):
        ck.bad(stage, "imports", "imports %r in %s, %r in %s" % (imp_view(a), a_name, imp_view(b), b_name))
    if exp_view(a) != exp_view(b):
        ck.bad(stage, "exports", "exports %r in %s, %r in %s" % (exp_view(a), a_name, exp_view(b), b_name))
    if rel_view(a) != rel_view(b):
        ck.bad(stage, "relocs", "relocations %r in %s, %r in %s" % (rel_view(a), a_name, rel_view(b), b_name))


def compare_model(ck, q, model):
    hq = hdr_view(q)
    for k, v in sorted(model["hdr_expect"].items()):
        if hq.get(k) != v:
            ck.bad("gen1-vs-model", "header:%s.%s" % k, "%s.%s parsed as %r, %r was set" % (k[0], k[1], hq.get(k), v))
    shs = q.SHList.shlist
    if len(shs) != len(model["sections"]) + 1:
        ck.bad("gen1-vs-model", "section-count", "%d sections parsed, %d created" % (len(shs), len(model["sections"]) + 1))
        return
    for i, m in enumerate(model["sections"]):
        s = shs[i]
        cls = sec_class(m)
        got = (_norm(s.name), s.rawsize, s.size, s.flags)
        want = (m["name"].encode(), m["raw"], m["virt"], m["flags"])
        if got != want:
            ck.bad("gen1-vs-model", "shdr:%s" % cls, "section %d (name, rawsize, size, flags) parsed as %r, created as %r" % (i, got, want))
        data = bytes(s.data)
        if data != m["vdata"]:
            k = next((j for j in range(min(len(data), len(m["vdata"]))) if data[j] != m["vdata"][j]), None)
            if k is None:
                where, skel = "length %d instead of %d" % (len(data), len(m["vdata"])), "length"
            else:
                skel = "first-bytes" if k < 0x100 else ("backed" if k < m["backed"] else "padding")
                where = "first difference at +%#x: %r instead of %r" % (k, data[k:k + 8], m["vdata"][k:k + 8])
            ck.bad("gen1-vs-model", "data:%s:%s" % (skel, cls),
                   "contents of section %d (raw %#x, virtual %#x) differ from what was given to add_section "
                   "followed by zero padding: %s" % (i, m["raw"], m["virt"], where))
    # directories against the model
    want_imp = [(d["dll"].encode(), d["firstthunk"], [_norm(f) for f in d["funcs"]]) for d in model["imports"]]
    if imp_view(q) != want_imp:
        ck.bad("gen1-vs-model", "imports", "imports parsed as %r, created as %r" % (imp_view(q), want_imp))
    ev = exp_view(q)
    me = model["exports"]
    if me is None:
        if ev is not None:
            ck.bad("gen1-vs-model", "exports:unexpected", "export directory %r parsed, none created" % (ev,))
    elif ev is None:
        ck.bad("gen1-vs-model", "exports:missing", "no export directory parsed, %r created" % (me,))
    else:
        names = sorted(n.encode() for n, _, _ in me["funcs"])
        if ev["dll"] != me["dll"].encode() or ev["base"] != 1 or ev["nfunc"] != len(names) or ev["nnames"] != len(names):
            ck.bad("gen1-vs-model", "exports:descriptor", "export descriptor parsed as %r, created as %r" % (ev, me))
        if ev["names"] != names:
            ck.bad("gen1-vs-model", "exports:names", "export names %r, expected sorted %r" % (ev["names"], names))
        for n, rva, k in me["funcs"]:
            got = q.DirExport.get_funcrva(n.encode())
            if got != rva:
                ck.bad("gen1-vs-model", "exports:funcrva", "export %r resolves to %r, created with rva %#x" % (n, got, rva))
            if k >= len(ev["addresses"]) or ev["addresses"][k] != rva:
                ck.bad("gen1-vs-model", "exports:address-table", "address table %r, entry %d should be %#x" % (ev["addresses"], k, rva))
    want_rel = sorted((3, t) for t, _ in model["relocs"])
    got_rel = rel_targets(rel_view(q))
    if got_rel != want_rel:
        ck.bad("gen1-vs-model", "relocs:targets", "relocation targets parsed as %r, created as %r" % (got_rel, want_rel))
    for t, val in model["relocs"]:
        w = q.rva.get(t, t + 4)
        if w != struct.pack("<I", val):
            ck.bad("gen1-vs-model", "relocs:word", "word at relocation target %#x is %r, %#x was stored" % (t, w, val))


def address_maps(ck, q, model, tag):
    """off2rva / rva2off / rva2virt / virt2rva at first and last file-backed byte of every section."""
    from miasm.loader import pe as pe_mod
    n_pts = 0
    base = q.NThdr.ImageBase
    shs = q.SHList.shlist
    infos = [(i, shs[i], m["backed"], sec_class(m)) for i, m in enumerate(model["sections"])]
    infos.append((len(shs) - 1, shs[-1], pegen.DIRS_RAW, "dirs"))
    for i, s, backed, cls in infos:
        if backed <= 0:
            continue
        for pos, k in (("first", 0), ("last", backed - 1)):
            n_pts += 1
            off, rva = s.offset + k, s.addr + k
            try:
                r1 = q.off2rva(off)
                o1 = q.rva2off(rva)
                o2 = q.rva2off(r1) if r1 is not None else None
                r2 = q.off2rva(o1) if o1 is not None else None
                va = q.rva2virt(rva)
                back = q.virt2rva(va)
                vo = q.virt2off(va)
                ov = q.off2virt(off)
            except pe_mod.InvalidOffset as e:
                ck.bad("addr:%s" % tag, "raise-InvalidOffset:%s:%s" % (pos, cls),
                       "address conversion raised %r at the %s file-backed byte of section %d (offset %#x, rva %#x)" % (e, pos, i, off, rva))
                continue
            if r1 != rva:
                ck.bad("addr:%s" % tag, "off2rva:%s:%s" % (pos, cls), "off2rva(%#x) = %r, expected %#x (section %d)" % (off, r1, rva, i))
            if o1 != off:
                ck.bad("addr:%s" % tag, "rva2off:%s:%s" % (pos, cls), "rva2off(%#x) = %r, expected %#x (section %d)" % (rva, o1, off, i))
            if o2 != off:
                ck.bad("addr:%s" % tag, "rva2off.off2rva:%s:%s" % (pos, cls), "rva2off(off2rva(%#x)) = %r (section %d)" % (off, o2, i))
            if r2 != rva:
                ck.bad("addr:%s" % tag, "off2rva.rva2off:%s:%s" % (pos, cls), "off2rva(rva2off(%#x)) = %r (section %d)" % (rva, r2, i))
            if va != base + rva or back != rva:
                ck.bad("addr:%s" % tag, "virt2rva.rva2virt:%s" % pos, "rva2virt(%#x) = %r, virt2rva of that = %r, base %#x" % (rva, va, back, base))
            if vo != off or ov != base + rva:
                ck.bad("addr:%s" % tag, "virt2off/off2virt:%s:%s" % (pos, cls), "virt2off(%#x) = %r (expected %#x), off2virt(%#x) = %r (expected %#x)" % (va, vo, off, off, ov, base + rva))
    return n_pts


def virtual_writes(ck, q, model):
    """Write one byte at the first and last file-backed byte of every content section (virt view for the first,
    rva view for the last), read back at once. Return the list of (rva, byte) written."""
    written = []
    base = q.NThdr.ImageBase
    for i, m in enumerate(model["sections"]):
        s = q.SHList.shlist[i]
        if m["backed"] <= 0:
            continue
        cls = sec_class(m)
        pts = [("first", 0, "virt")]
        if m["backed"] > 1:
            pts.append(("last", m["backed"] - 1, "rva"))
        for pos, k, view in pts:
            rva = s.addr + k
            new = bytes([(m["vdata"][k] ^ 0xA5) or 0x5A])
            before = bytes(s.data)
            try:
                if view == "virt":
                    q.virt.set(base + rva, new)
                    got = q.virt.get(base + rva, base + rva + 1)
                    got_other = q.rva.get(rva, rva + 1)
                else:
                    q.rva.set(rva, new)
                    got = q.rva.get(rva, rva + 1)
                    got_other = q.virt.get(base + rva, base + rva + 1)
            except Exception as e:
                ck.bad("write", "raise-%s:%s:%s:%s" % (type(e).__name__, view, pos, cls),
                       "%s write of one byte at rva %#x (section %d, %s file-backed byte) raised %r" % (view, rva, i, pos, e))
                continue
            after = bytes(s.data)
            want = before[:k] + new + before[k + 1:]
            if got != new or got_other != new:
                ck.bad("write", "readback:%s:%s:%s" % (view, pos, cls), "wrote %r at rva %#x through %s, read back %r / %r" % (new, rva, view, got, got_other))
            elif after != want:
                ck.bad("write", "neighbours:%s:%s:%s" % (view, pos, cls), "one byte write at rva %#x changed other bytes of section %d" % (rva, i))
            written.append((rva, new))
    return written


def relocate(ck, q, model, written):
    """reloc_to with each delta in turn; every relocated word moves by the delta, nothing else moves."""
    n = 0
    base0 = q.NThdr.ImageBase
    if not model["relocs"]:
        # nothing to shift: the call is not part of the oracle (it raises on an image without relocation directory)
        try:
            q.reloc_to(base0 + DELTAS[0])
            q.reloc_to(base0)
            return 0, "noreloc-accepted"
        except Exception as e:
            return 0, "noreloc-raise-%s" % type(e).__name__
    targets = dict(model["relocs"])
    for d in DELTAS:
        before = _secdata(q)
        old_base = q.NThdr.ImageBase
        new_base = old_base + d
        skel = "delta+" if d > 0 else "delta-"
        try:
            q.reloc_to(new_base)
        except Exception as e:
            ck.bad("reloc_to", "raise-%s:%s:rel%d" % (type(e).__name__, skel, len(targets)), "reloc_to(%#x) from %#x raised %r" % (new_base, old_base, e))
            return n, "raise"
        n += 1
        if q.NThdr.ImageBase != new_base:
            ck.bad("reloc_to", "imagebase:%s" % skel, "ImageBase is %#x after reloc_to(%#x)" % (q.NThdr.ImageBase, new_base))
        after = _secdata(q)
        dirs = q.SHList.shlist[-1]
        for i, (x, y) in enumerate(zip(before, after)):
            if i != len(before) - 1:
                if x != y:
                    ck.bad("reloc_to", "touches-other-section:%s" % skel, "reloc_to changed section %d which holds no relocation target" % i)
                continue
            want = bytearray(x)
            for t in targets:
                o = t - dirs.addr
                v = struct.unpack("<I", x[o:o + 4])[0]
                want[o:o + 4] = struct.pack("<I", (v + d) & 0xFFFFFFFF)
            if bytes(want) != y:
                bad_t = [t for t in targets if y[t - dirs.addr:t - dirs.addr + 4] != bytes(want[t - dirs.addr:t - dirs.addr + 4])]
                if bad_t:
                    t = bad_t[0]
                    o = t - dirs.addr
                    pcls = "page-offset-0" if t & 0xFFF == 0 else ("page-last-dword" if t & 0xFFF == 0xFFC else "mid-page")
                    ck.bad("reloc_to", "wrong-shift:%s:%s" % (skel, pcls),
                           "word at %#x was %#x, is %#x after reloc_to by %#x (expected %#x)" % (
                               t, struct.unpack("<I", x[o:o + 4])[0], struct.unpack("<I", y[o:o + 4])[0], d,
                               struct.unpack("<I", bytes(want[o:o + 4]))[0]))
                else:
                    k = next(j for j in range(len(y)) if y[j] != want[j])
                    ck.bad("reloc_to", "touches-unrelocated-bytes:%s" % skel, "reloc_to changed byte +%#x of the section, not part of any relocated word" % k)
    return n, "ok"


def beyond_backing(ck, r, model):
    n = 0
    base = r.NThdr.ImageBase
    for i, m in enumerate(model["sections"]):
        if m["virt"] <= m["raw"] or m["virt"] == 0:
            continue
        s = r.SHList.shlist[i]
        va = base + s.addr + m["virt"] - 1
        n += 1
        try:
            r.virt.set(va, b"\xEE")
            got = r.virt.get(va, va + 1)
        except Exception as e:
            ck.bad("write", "raise-%s:virt:last-virtual:%s" % (type(e).__name__, sec_class(m)),
                   "virtual write at the last virtual byte %#x of section %d raised %r" % (va, i, e))
            continue
        if got != b"\xEE":
            ck.bad("write", "readback:virt:last-virtual:%s" % sec_class(m), "wrote 0xEE at %#x, read back %r" % (va, got))
    return n


def check_spec(spec):
    """Return (violations, stats)."""
    from miasm.loader.pe_init import PE
    _quiet()
    ck = Ck(spec)
    st = {"refused": None, "bytes_stable": 0, "addr_points": 0, "writes": 0, "relocs_done": 0, "reloc_mode": None,
          "beyond": 0, "layout": None, "len": 0}
    try:
        p, model = pegen.build(spec)
    except Exception as e:
        st["refused"] = "create:%s" % type(e).__name__
        return ck.vs, st
    try:
        b0 = bytes(p)
    except Exception as e:
        ck.bad("serialize-gen0", "raise-%s" % type(e).__name__, "bytes(pe) raised %r" % (e,))
        return ck.vs, st
    if not table_guard(ck, "serialize-gen0", p, b0, model):
        st["stopped"] = 1      # the bytes are not handed to the parser: the rest of the oracle is not evaluated
        return ck.vs, st
    try:
        q = PE(b0)
    except Exception as e:
        ck.bad("parse-gen1", "raise-%s" % type(e).__name__, "PE(bytes(pe)) raised %r" % (e,))
        return ck.vs, st
    st["len"] = len(b0)
    st["layout"] = tuple((s.offset, s.addr) for s in q.SHList.shlist)
    compare_struct(ck, "gen0-vs-gen1", p, q, "the built object", "PE(bytes(pe))", model)
    compare_model(ck, q, model)
    st["addr_points"] += address_maps(ck, q, model, "gen1")
    written = virtual_writes(ck, q, model)
    st["writes"] = len(written)
    st["relocs_done"], st["reloc_mode"] = relocate(ck, q, model, written)
    # second generation
    try:
        b1 = bytes(q)
        if not table_guard(ck, "serialize-gen1", q, b1):
            return ck.vs, st
        r = PE(b1)
    except Exception as e:
        ck.bad("gen2", "raise-%s" % type(e).__name__, "bytes()/PE() of the parsed and modified image raised %r" % (e,))
        return ck.vs, st
    compare_struct(ck, "gen1-vs-gen2", q, r, "the modified PE(bytes(pe))", "its re-parse", model)
    dq, dr = _secdata(q), _secdata(r)
    for i, (x, y) in enumerate(zip(dq, dr)):
        if x != y:
            k = next((j for j in range(min(len(x), len(y))) if x[j] != y[j]), min(len(x), len(y)))
            cls = sec_class(model["sections"][i]) if i < len(model["sections"]) else "dirs"
            ck.bad("gen1-vs-gen2", "data:%s" % cls,
                   "contents of section %d differ after serialising and re-parsing the modified image, first at +%#x "
                   "(%r became %r)" % (i, k, x[k:k + 8], y[k:k + 8]))
    for rva, new in written:
        got = r.rva.get(rva, rva + 1)
        if got != new:
            ck.bad("gen1-vs-gen2", "written-byte-lost", "byte %r written at rva %#x reads %r after the round trip" % (new, rva, got))
    st["addr_points"] += address_maps(ck, r, model, "gen2")
    st["beyond"] = beyond_backing(ck, r, model)
    # informative only
    if st["relocs_done"] == 0 and not written:
        st["bytes_stable"] = 1 if b1 == b0 else -1
    return ck.vs, st


def nontrivial(spec):
    ws, h, lay, i, e, r = spec
    if i or e or r:
        return True
    for ri, vi in lay:
        if ri != vi or pegen.SIZES[ri] % 0x200 or pegen.SIZES[ri] == 0:
            return True
    return False


# ---------------------------------------------------------------------------------------------------------------

ALL = list(range(len(pegen.SIZES)))
BOUNDS = {
    "quick": {
        # 1 section: all 36 pairs; 2 sections: 8-pair alphabet; 3 sections: 2-pair alphabet; all menus crossed
        "pairs": {1: pegen.size_pairs(),
                  2: [[0, 1], [1, 0], [2, 3], [3, 2], [4, 5], [5, 4], [5, 5], [2, 5]],
                  3: [[2, 5], [5, 1]]},
        "dir_menus_3sec": "all",
        "extra_3sec_full_sizes": False,
    },
    "thorough": {
        # 1-2 sections: all 36 pairs crossed with all menus; 3 sections: 6-pair alphabet crossed with all menus, plus
        # ALL 36^3 size layouts with the two extreme directory settings (no directory at all / the largest of each)
        # under the default and the packed header menus
        "pairs": {1: pegen.size_pairs(), 2: pegen.size_pairs(),
                  3: [[0, 5], [1, 0], [2, 3], [3, 3], [4, 1], [5, 4]]},
        "dir_menus_3sec": "all",
        "extra_3sec_full_sizes": True,
    },
}


EXTREME_HDRS = (0, 3)   # header menus crossed with the full 36^3 three-section size lattice (default and packed)


def layouts_of(tier):
    """List of (layout, dir_menu_mode); mode "all" = all 36 directory menus, "extreme" = the two extreme ones."""
    b = BOUNDS[tier]
    lays = [(l, "all") for l in pegen.section_layouts(3, b["pairs"])]
    if b["extra_3sec_full_sizes"]:
        small = set(tuple(map(tuple, l)) for l, _ in lays)
        for t in pegen.section_layouts(3, {1: [], 2: [], 3: pegen.size_pairs()}):
            if tuple(map(tuple, t)) not in small:
                lays.append((t, "extreme"))
    return lays


def specs_of_layout(lay, mode):
    for ws in (32, 64):
        for h in pegen.HDR_MENUS:
            if mode == "all":
                for i in range(4):
                    for e in range(3):
                        for r in range(3):
                            yield [ws, h, lay, i, e, r]
            elif h in EXTREME_HDRS:
                yield [ws, h, lay, 0, 0, 0]
                yield [ws, h, lay, 3, 2, 2]


def all_specs(tier, idx=0, nsh=1):
    for k, (lay, mode) in enumerate(layouts_of(tier)):
        if k % nsh != idx:
            continue
        for s in specs_of_layout(lay, mode):
            yield s


def _shard(args):
    tier, idx, nsh = args
    vs = []
    n = nt = 0
    refused = {}
    layouts = set()
    counters = {"addr_points": 0, "writes": 0, "relocs_done": 0, "beyond": 0, "bytes_stable": 0, "bytes_unstable": 0,
                "stopped_at_serialisation_guard": 0}
    reloc_modes = {}
    sample = None
    per_sig = {}
    for spec in all_specs(tier, idx, nsh):
        n += 1
        if nontrivial(spec):
            nt += 1
        v, st = check_spec(spec)
        for x in v:
            c = per_sig.get(x["sig"], 0)
            per_sig[x["sig"]] = c + 1
            if c < 2:
                vs.append(x)
        if st["refused"]:
            refused[st["refused"]] = refused.get(st["refused"], 0) + 1
            continue
        if st.get("stopped"):
            counters["stopped_at_serialisation_guard"] += 1
            continue
        layouts.add(st["layout"])
        for key in ("addr_points", "writes", "relocs_done", "beyond"):
            counters[key] += st[key]
        if st["bytes_stable"] > 0:
            counters["bytes_stable"] += 1
        elif st["bytes_stable"] < 0:
            counters["bytes_unstable"] += 1
        if st["reloc_mode"]:
            reloc_modes[st["reloc_mode"]] = reloc_modes.get(st["reloc_mode"], 0) + 1
        if sample is None and len(spec[2]) == 3 and spec[3] == 3:
            sample = spec
    return n, nt, vs, refused, layouts, counters, reloc_modes, sample, per_sig


def run(ctx):
    tier = "quick" if ctx.quick else "thorough"
    nsh = 64 if ctx.quick else 256
    res = ctx.pmap(_shard, [(tier, i, nsh) for i in range(nsh)])
    n = sum(r[0] for r in res)
    nt = sum(r[1] for r in res)
    refused, reloc_modes, per_sig = {}, {}, {}
    layouts = set()
    counters = {}
    # keep the smallest witnesses: shards are interleaved, so sort by spec size
    allv = []
    for r in res:
        allv.extend(r[2])
        for k, v in r[3].items():
            refused[k] = refused.get(k, 0) + v
        layouts |= r[4]
        for k, v in r[5].items():
            counters[k] = counters.get(k, 0) + v
        for k, v in r[6].items():
            reloc_modes[k] = reloc_modes.get(k, 0) + v
        for k, v in r[8].items():
            per_sig[k] = per_sig.get(k, 0) + v
    allv.sort(key=lambda v: (v["sig"], len(v["case"]["spec"][2]), repr(v["case"]["spec"])))
    seen = {}
    for v in allv:
        if seen.get(v["sig"], 0) < 3:
            seen[v["sig"]] = seen.get(v["sig"], 0) + 1
            ctx.violations.append(v)
    b = BOUNDS[tier]
    cov = {
        "evaluations": n,
        "distinct_nontrivial": nt,
        "samples": [r[7] for r in res if r[7]][:4],
        "exhaustive": True,
        "bounds": {"wsize": [32, 64], "hdr_menus": list(pegen.HDR_NAMES), "sizes": list(pegen.SIZES),
                   "pair_alphabet_by_section_count": {str(k): v for k, v in b["pairs"].items()},
                   "all_36^3_three_section_layouts_with_extreme_directory_menus": b["extra_3sec_full_sizes"],
                   "hdr_menus_for_the_36^3_part": [pegen.HDR_NAMES[h] for h in EXTREME_HDRS],
                   "import_menus": 4, "export_menus": 3, "reloc_menus": 3, "reloc_deltas": list(DELTAS)},
        "distinct_outcomes": len(layouts),
        "distinct_layouts": len(layouts),
        "refused_by_api": sum(refused.values()),
        "refused_detail": refused,
        "reloc_modes": reloc_modes,
        "violating_evaluations_by_sig": per_sig,
        "add_reloc_needs_init": 1,
    }
    cov.update(counters)
    return cov


def replay(case):
    spec = case["spec"]
    vs, _ = check_spec(spec)
    return vs
