"""C43 - ELF files round-trip through parse and build.

Engine E2 (complete enumeration of a finite corpus x edit lattice).

Corpus (mc/elfcorpus.py): every object the local toolchain produces offline from 6 tiny C sources - gcc x86-64
{exec, PIE, static, -shared, .o, .o with debug info and per-function sections}, gcc -m32 .o and ld -m elf_i386 -shared
of it, clang --target={armv7, armeb, aarch64, aarch64_be, mips, mipsel, mips64, powerpc, powerpc64, powerpc64le,
riscv64, i386, s390x} .o.  32/64-bit, both endiannesses, ET_REL / ET_EXEC / ET_DYN.

For every file
  identity    bytes(ELF(data)) == data
  edits       for every section that has file contents, the first and the last byte are changed (same size) through
              the loader API:   section.content = new        (descriptor: resize by 0, re-parse of that section)
                                section.content[k] = byte    (in-place patch of the StrPatchwork)        [thorough]
                                elf.virt.set(addr + k, byte) (PROGBITS sections with an address)         [thorough]
              then r = ELF(bytes(elf)) must show the section table, the section contents, the segments, the symbol
              tables, the dynamic entries and the relocation tables of the *expected file* (= original bytes with
              that one byte changed), read by the same parser.
  virt windows every run of 1..4 PROGBITS sections of a linked file that follow each other in memory without a gap
              (.got/.got.plt/.data, .rodata/.eh_frame_hdr/.eh_frame, ...): ONE write e.virt.set(start, data) over the whole
              run, and over the run minus its first and last byte, with a distinct byte per position. The serialised file
              must be the original with exactly the targeted file offsets patched, e.virt.get must read the bytes back
              (before serialising and after re-parsing) and the re-parse must show the tables of the expected file.
  deviations  [thorough] every ELF-header field (and e_ident class/data/version/osabi) and every section-header
              field, +1 and -1 (mod field width): when the loader still accepts the deviated file (parse and build
              both return), parse -> build -> parse must be stable: the second parse returns, shows the same tables
              and builds the same bytes. Parses/builds that raise, exhaust the memory cap or exceed the CPU cap
              (several parse loops do not terminate on a zero entry size) are *refusals* and only counted.

  histories   ordered pairs (A, B) of corpus files handled one after the other by ONE process (quick: 10 objects covering
              32/64 bit x little/big endian x REL/DYN, 90 ordered pairs; thorough: all ordered pairs of the objects of
              two sources, 22 files), plus chains handling the whole corpus in one process in several orders
              (by name, reversed, 64-bit first, 32-bit first, ...), every file compared with its fresh result,
              so that every combination 32-then-64 and 64-then-32 bit of either byte order, REL/EXEC/DYN, occurs in
              both orders: the result for B (outcome, built bytes, all tables) must be the result B gives when it is
              the only file its process ever handles.

Process model: every shard (one file of the per-file stages, or one history) runs in a process forked for it from a
parent that never executes loader code, so per-file results are fresh-state results and nothing the loader memoises
leaks between shards. An exception of the loader that reaches the harness, or a shard process that dies, is reported
as a violation (parse:raise:<ExcType>:<stage>:<class>), never as a harness error.

Within the edit stage an exception raised by the loader is a refusal (the changed content is not acceptable to it),
but a call that does not return (confirmed with a larger CPU cap) is a violation: the change was taken and the
re-parse never yields anything.

Not demanded: byte identity for deviated files (counted: the builder emits header-referenced bytes only).
"""
import hashlib
import logging
import os
import pickle
import resource
import signal
import traceback

from mc import elfcorpus
from mc.runner import violation

PROP = "C43"
LEVEL = "exploration"
ENGINE = "enum"
RULE = ("corpus x edit lattice, completely enumerated: (file) for identity; (ordered pair of files in one process) for "
        "histories; (file, section with contents, first|last "
        "byte, xor mask, API path) for edits; (file, header field, +1|-1) for deviations. Non-trivial = the edit was "
        "applied to a non-empty section (not refused) resp. the deviated file was accepted by the loader; the "
        "counters also say how many edits changed a *derived* table (symbols, dynamic, relocations, section names)")
LEVEL_TEXT = ("Exhaustive over the stated finite corpus and edit set: every toolchain object, every section with contents, "
              "both end bytes, every API path for a same-size content change; thorough adds every +-1 deviation of every "
              "ELF-header and section-header field.")
LEVEL_NOTE = ("Trusted: the toolchain as corpus generator, Python struct for the deviation writer, and miasm's own parser "
              "as the reader of the expected file (the property is relative: same tables before and after). Not covered: "
              "32-bit executables linked against libc (no multilib), size-changing edits, program-header deviations, "
              "byte identity of deviated files (counted only).")
TECHNIQUE = "exhaustive enumeration of same-size section edits and +-1 header deviations over a toolchain-produced ELF corpus"
ASSUMPTIONS = [
    "the corpus is whatever gcc/clang/ld produce here; a target the toolchain cannot build is recorded, not an error",
    "a parse or build that raises, hits the address-space cap or the CPU-time cap is a refusal by the loader",
    "the expected file after an edit is the original file with the one byte at sh_offset + k changed",
]

CPU_CAP_SMALL = 0.3     # seconds of process CPU time for one parse/build of a file < 100 kB
CPU_CAP_BIG = 8.0
# quick: one relocatable and one linked object of each ELF class / byte order the toolchain gives, 90 ordered pairs
HISTORY_SOURCES_THOROUGH = ("data", "many")    # thorough: all ordered pairs of the objects of these sources
HISTORY_POOL_QUICK = ("data.i386.o", "data.m32.so", "data.armv7.o", "data.gcc.o", "data.gcc.so", "data.aarch64.o",
                      "data.mips.o", "data.powerpc.o", "data.mips64.o", "data.s390x.o")
NONTERM_MULT = 4        # a CPU-cap trip inside an edit is re-run with this many times the cap before it is reported
MEM_CAP = 3 << 29       # address-space cap of a worker while deviated files are handled

EHDR_FIELDS = elfcorpus.EHDR_FIELDS
SHDR_FIELDS = elfcorpus.SHDR_FIELDS
IDENT_FIELDS = (("ei_class", 4), ("ei_data", 5), ("ei_version", 6), ("ei_osabi", 7))

SHT = {0: "NULL", 1: "PROGBITS", 2: "SYMTAB", 3: "STRTAB", 4: "RELA", 5: "HASH", 6: "DYNAMIC", 7: "NOTE", 8: "NOBITS",
       9: "REL", 11: "DYNSYM", 14: "INIT_ARRAY", 15: "FINI_ARRAY", 16: "PREINIT_ARRAY", 17: "GROUP", 18: "SYMTAB_SHNDX"}


def sht_name(t):
    if t in SHT:
        return SHT[t]
    if 0x60000000 <= t < 0x70000000:
        return "OS"
    if 0x70000000 <= t < 0x80000000:
        return "PROC"
    return "OTHER"


def _quiet():
    logging.getLogger("elfparse").setLevel(logging.CRITICAL)


class CpuTimeout(BaseException):
    pass


def _on_timer(signum, frame):
    raise CpuTimeout()


class limited(object):
    """CPU-time cap (ITIMER_VIRTUAL: process user time, independent of machine load) around a loader call."""

    def __init__(self, seconds):
        self.seconds = seconds

    def __enter__(self):
        self.old = signal.signal(signal.SIGVTALRM, _on_timer)
        signal.setitimer(signal.ITIMER_VIRTUAL, self.seconds)

    def __exit__(self, *a):
        signal.setitimer(signal.ITIMER_VIRTUAL, 0)
        signal.signal(signal.SIGVTALRM, self.old)
        return False


def _guarded(f, cap):
    """Run one loader call under the CPU cap; return (result, None) or (None, reason of the refusal)."""
    try:
        with limited(cap):
            return f(), None
    except CpuTimeout:
        return None, "cpu-cap"
    except MemoryError:
        return None, "MemoryError"
    except RecursionError:
        return None, "RecursionError"
    except Exception as ex:
        return None, type(ex).__name__


NOT_JUDGED = "not-judged-memory-cap"


def _guarded_sure(f, cap, mult=8):
    """Like _guarded, for calls whose failure would be reported as a violation.
    * a CPU-cap trip is confirmed with a @mult times larger cap (a non-terminating loop still trips it, a slow
      machine does not);
    * a MemoryError under the worker's address-space cap depends on what the worker already holds, so it is no verdict
      about the loader: the call is repeated after a collection with a 4 times larger address-space cap. Only if it
      fails again is it "MemoryError"; otherwise the result is NOT used (a fresh process under the normal cap could go
      either way) and the error is NOT_JUDGED, which never becomes a violation (see _judged)."""
    r, err = _guarded(f, cap)
    if err == "cpu-cap":
        r, err = _guarded(f, mult * cap)
    if err == "MemoryError":
        import gc
        r = None
        gc.collect()
        old = resource.getrlimit(resource.RLIMIT_AS)
        big = 4 * MEM_CAP if old[1] == resource.RLIM_INFINITY else min(4 * MEM_CAP, old[1])
        try:
            resource.setrlimit(resource.RLIMIT_AS, (big, old[1]))
        except (ValueError, OSError):
            pass
        try:
            r2, err2 = _guarded(f, mult * cap)
        finally:
            try:
                resource.setrlimit(resource.RLIMIT_AS, old)
            except (ValueError, OSError):
                pass
        del r2
        gc.collect()
        return None, ("MemoryError" if err2 == "MemoryError" else NOT_JUDGED)
    return r, err


def _judged(vs):
    """Drop the violations whose signature carries NOT_JUDGED; return (kept, number dropped)."""
    kept = [v for v in vs if NOT_JUDGED not in v["sig"]]
    return kept, len(vs) - len(kept)


def cap_for(data):
    return CPU_CAP_SMALL if len(data) < 100000 else CPU_CAP_BIG


def file_class(data):
    try:
        t = elfcorpus.read_tables(data)
    except Exception:
        return "unreadable"
    et = {1: "REL", 2: "EXEC", 3: "DYN"}.get(t["ehdr"]["type"], "ET%d" % t["ehdr"]["type"])
    return "elf%d%s-%s" % (t["bits"], "le" if t["end"] == "<" else "be", et)


# ---------------------------------------------------------------------------------------------------------------
# views of a parsed file

def _safe(f):
    try:
        return f()
    except Exception as e:
        return "<raise %s>" % type(e).__name__


def view(e):
    from miasm.loader import elf_init
    v = {}
    v["ehdr"] = tuple(_safe(lambda f=f: getattr(e.Ehdr.cstr, f)) for f in ("ident",) + EHDR_FIELDS)
    secs, syms, dyns, rels = [], [], [], []
    for i, s in enumerate(e.sh.shlist):
        raw = tuple(getattr(s.sh.cstr, f) for f in SHDR_FIELDS)
        name = _safe(lambda s=s: bytes(s.sh.name))
        content = None if isinstance(s, elf_init.NoBitsSection) else bytes(s.content)
        secs.append((raw, name, type(s).__name__, content))
        if hasattr(s, "symtab"):
            syms.append((i, [(y.cstr.name, y.cstr.value, y.cstr.size, y.cstr.info, y.cstr.other, y.cstr.shndx,
                              _safe(lambda y=y: bytes(y.name))) for y in s.symtab]))
        if hasattr(s, "dyntab"):
            dyns.append((i, [(d.cstr.type, d.cstr.name, _safe(lambda d=d: d.name)) for d in s.dyntab]))
        if hasattr(s, "reltab"):
            rels.append((i, [(r.cstr.offset, r.cstr.info, getattr(r.cstr, "addend", None),
                              _safe(lambda r=r: r.sym), _safe(lambda r=r: r.type)) for r in s.reltab]))
    v["sections"] = secs
    v["segments"] = [tuple(getattr(p.ph.cstr, f) for f in elfcorpus.PHDR_FIELDS) for p in e.ph.phlist]
    v["symbols"] = syms
    v["dynamic"] = dyns
    v["relocations"] = rels
    return v


def diff_views(a, b):
    """Names of the tables that differ (most specific first)."""
    out = []
    if a["ehdr"] != b["ehdr"]:
        out.append("ehdr")
    if len(a["sections"]) != len(b["sections"]):
        out.append("section-count")
    else:
        if [s[0] for s in a["sections"]] != [s[0] for s in b["sections"]]:
            out.append("section-headers")
        if [s[1] for s in a["sections"]] != [s[1] for s in b["sections"]]:
            out.append("section-names")
        if [s[3] for s in a["sections"]] != [s[3] for s in b["sections"]]:
            out.append("section-contents")
    for k in ("segments", "symbols", "dynamic", "relocations"):
        if a[k] != b[k]:
            out.append(k)
    return out


def first_diff_region(data, out, tables):
    """Which part of the file holds the first differing byte."""
    n = min(len(data), len(out))
    k = next((i for i in range(n) if data[i] != out[i]), None)
    if k is None:
        return "length(%s)" % ("shorter" if len(out) < len(data) else "longer"), n
    eh = tables["ehdr"]
    if k < eh["ehsize"]:
        return "ehdr", k
    if eh["phoff"] <= k < eh["phoff"] + eh["phnum"] * eh["phentsize"]:
        return "phdr-table", k
    if eh["shoff"] <= k < eh["shoff"] + eh["shnum"] * eh["shentsize"]:
        return "shdr-table", k
    for sh in tables["shdrs"]:
        if sh["type"] != 8 and sh["offset"] <= k < sh["offset"] + sh["size"]:
            return "section-" + sht_name(sh["type"]), k
    return "gap-outside-headers-and-sections", k


# ---------------------------------------------------------------------------------------------------------------
# identity

def check_identity(ent):
    from miasm.loader.elf_init import ELF
    _quiet()
    data = ent["data"]
    cls = file_class(data)
    case = {"k": "identity", "file": ent["name"], "sha256": ent["sha256"]}
    st = {"reader_disagree": []}
    cap = cap_for(data)
    e, err = _guarded_sure(lambda: ELF(data), cap)
    if err:
        return [violation("identity:parse-%s" % err, "ELF(%s) ends with %s (a toolchain-produced %s file is not accepted)"
                          % (ent["name"], err, cls), case)], st
    out, err = _guarded_sure(lambda: bytes(e), cap)
    if err:
        return [violation("identity:build-%s" % err, "bytes(ELF(%s)) ends with %s" % (ent["name"], err), case)], st
    vs = []
    tables = elfcorpus.read_tables(data)
    if out != data:
        region, k = first_diff_region(data, out, tables)
        vs.append(violation("identity:bytes-differ:%s" % region,
                            "bytes(ELF(%s)) differs from the file (%d vs %d bytes), first at offset %#x: %r became %r"
                            % (ent["name"], len(data), len(out), k, data[k:k + 8], out[k:k + 8]), case))
    v, err = _guarded_sure(lambda: view(e), cap)
    if err:
        return vs + [violation("identity:tables-unreadable-%s" % err, "tables of ELF(%s) cannot be read: %s" % (ent["name"], err), case)], st
    # the sections the parser hands out must hold the file's bytes (baseline of "the same sections")
    for i, (sec, sh) in enumerate(zip(v["sections"], tables["shdrs"])):
        if sec[3] is None or sh["offset"] + sh["size"] > len(data):
            continue
        want = data[sh["offset"]:sh["offset"] + sh["size"]]
        if sec[3] != want:
            how = "longer" if len(sec[3]) > len(want) else ("shorter" if len(sec[3]) < len(want) else "differs")
            vs.append(violation("identity:section-content-%s:%s" % (how, sht_name(sh["type"])),
                                "%s: section %d (%s %r) is %#x bytes in the file (sh_size) but the parsed section's "
                                "content is %#x bytes: %r..." % (ent["name"], i, sht_name(sh["type"]), sec[1], len(want),
                                                                len(sec[3]), sec[3][len(want) - 4:len(want) + 16]), case))
    # informative: miasm's raw header tables against the struct-only reader
    if [dict(zip(SHDR_FIELDS, s[0])) for s in v["sections"]] != tables["shdrs"]:
        st["reader_disagree"].append("shdrs:" + ent["name"])
    if [dict(zip(elfcorpus.PHDR_FIELDS, p)) for p in v["segments"]] != tables["phdrs"]:
        st["reader_disagree"].append("phdrs:" + ent["name"])
    if dict(zip(EHDR_FIELDS, v["ehdr"][1:])) != tables["ehdr"]:
        st["reader_disagree"].append("ehdr:" + ent["name"])
    st["nsec"] = len(v["sections"])
    st["nseg"] = len(v["segments"])
    st["nsym"] = sum(len(x[1]) for x in v["symbols"])
    st["ndyn"] = sum(len(x[1]) for x in v["dynamic"])
    st["nrel"] = sum(len(x[1]) for x in v["relocations"])
    for d in st["reader_disagree"]:
        which = d.split(":")[0]
        vs.append(violation("identity:header-tables-differ-from-file:%s" % which,
                            "%s: the %s the parser shows are not the ones a struct-level reading of the file gives" % (ent["name"], which), case))
    st["digest"] = result_digest("ok", out, v)
    return vs, st


# ---------------------------------------------------------------------------------------------------------------
# histories: several files handled one after the other by ONE process

def result_digest(outcome, out, v):
    h = hashlib.sha256()
    h.update(outcome.encode())
    h.update(hashlib.sha256(out or b"").digest())
    h.update(repr(v).encode())
    return h.hexdigest()


def bits_end(data):
    return "elf%d%s" % ({1: 32, 2: 64}.get(data[4], 0), {1: "le", 2: "be"}.get(data[5], "??"))


def parse_result(ent):
    """(outcome, digest, detail) of parse + build + tables of one file in the current process state."""
    from miasm.loader.elf_init import ELF
    _quiet()
    data = ent["data"]
    cap = cap_for(data)
    e, err = _guarded_sure(lambda: ELF(data), cap)
    if err:
        return "parse-" + err, result_digest("parse-" + err, None, None), None
    out, err = _guarded_sure(lambda: bytes(e), cap)
    if err:
        return "build-" + err, result_digest("build-" + err, None, None), None
    v, err = _guarded_sure(lambda: view(e), cap)
    if err:
        return "tables-" + err, result_digest("tables-" + err, None, None), None
    return "ok", result_digest("ok", out, v), (out == data, len(v["sections"]), len(v["segments"]))


def check_history(names, fresh_digest):
    """Handle the files @names in this order in this process; the result for the last one must be the result the
    same file gives when it is the only file its process ever handles (@fresh_digest, computed by the identity
    stage in a process of its own)."""
    ents = [elfcorpus.get(n) for n in names]
    case = {"k": "history", "files": list(names)}
    for ent in ents[:-1]:
        try:
            parse_result(ent)
        except Exception:
            pass
    last = ents[-1]
    skel = "%s-then-%s" % ("-then-".join(bits_end(e["data"]) for e in ents[:-1]), bits_end(last["data"]))
    try:
        outcome, digest, detail = parse_result(last)
    except Exception as ex:
        return [violation("history:%s:raise-%s" % (skel, type(ex).__name__),
                          "%s handled after %s in the same process: %r escaped (alone in a fresh process it parses)"
                          % (last["name"], ", ".join(names[:-1]), ex), case)], "violation"
    if digest == fresh_digest:
        return [], "same-as-fresh"
    if outcome != "ok":
        kind = outcome
        what = "ends with %s" % outcome
    elif not detail[0]:
        kind = "bytes-differ"
        what = "bytes(ELF(data)) != data (%d sections, %d segments seen)" % (detail[1], detail[2])
    else:
        kind = "tables-differ"
        what = "round-trips byte for byte but shows other tables (%d sections, %d segments)" % (detail[1], detail[2])
    return [violation("history:%s:%s" % (skel, kind),
                      "%s handled after %s in the same process %s; handled alone in a fresh process it gives another result"
                      % (last["name"], ", ".join(names[:-1]), what), case)], "violation"


def check_chain(names, fresh):
    """A long history: every file of @names in this order in this process; each result is compared with the file's
    fresh-state result (@fresh: name -> digest). The first file that differs is reported."""
    case = {"k": "chain", "files": list(names)}
    first_cls = bits_end(elfcorpus.get(names[0])["data"])
    n_cmp = 0
    for idx, n in enumerate(names):
        ent = elfcorpus.get(n)
        try:
            outcome, digest, detail = parse_result(ent)
        except Exception as ex:
            outcome, digest, detail = "raise-" + type(ex).__name__, None, None
        if idx == 0 or n not in fresh:
            continue
        n_cmp += 1
        if digest != fresh[n]:
            kind = outcome if outcome != "ok" else ("bytes-differ" if not detail[0] else "tables-differ")
            seen = sorted(set(bits_end(elfcorpus.get(x)["data"]) for x in names[:idx]))
            case["files"] = list(names[:idx + 1])
            return [violation("history-chain:%s-first:%s:%s" % (first_cls, bits_end(ent["data"]), kind),
                              "%s, handled as file %d of one process after files of classes %s (first %s): %s; alone in a fresh "
                              "process it gives another result" % (n, idx + 1, "/".join(seen), names[0],
                                                                   "ends with " + outcome if outcome != "ok" else kind), case)], "violation", n_cmp
    return [], "same-as-fresh", n_cmp


def history_shard(names, fresh_digest):
    res = {"n": 1, "nt": 1, "vs": [], "outcomes": {}, "sample": None, "stats": None, "per_sig": {}, "digest": None}
    if isinstance(fresh_digest, dict):
        vs, outcome, n_cmp = check_chain(names, fresh_digest)
        _bump(res["outcomes"], "history-chain:" + outcome)
        _bump(res["outcomes"], "history-chain:files-compared", n_cmp)
    else:
        vs, outcome = check_history(names, fresh_digest)
        _bump(res["outcomes"], "history:" + outcome)
    vs, dropped = _judged(vs)
    if dropped:
        _bump(res["outcomes"], "not_judged_memory_cap", dropped)
    for v in vs:
        res["per_sig"][v["sig"]] = 1
        res["vs"].append(v)
    return res


# ---------------------------------------------------------------------------------------------------------------
# edits

PATHS_QUICK = ("assign",)
PATHS_THOROUGH = ("assign", "patch", "virt")
XORS_QUICK = (0xFF,)
XORS_THOROUGH = (0xFF, 0x01)


def editable_sections(data):
    t = elfcorpus.read_tables(data)
    return [i for i, sh in enumerate(t["shdrs"]) if sh["type"] not in (0, 8) and sh["size"] > 0
            and sh["offset"] + sh["size"] <= len(data)], t


def check_edit(ent, i, pos, xor, path, orig_view=None):
    """Return (violations, outcome string)."""
    from miasm.loader.elf_init import ELF, ProgBits
    _quiet()
    data = ent["data"]
    cls = file_class(data)
    case = {"k": "edit", "file": ent["name"], "sha256": ent["sha256"], "section": i, "pos": pos, "xor": xor, "path": path}
    e, err = _guarded_sure(lambda: ELF(data), cap_for(data))
    if err:
        return [], "base-parse-refused:%s" % err      # reported by the identity stage
    s = e.sh[i]
    sh = s.sh.cstr
    stype = sht_name(sh.type)
    old = bytes(s.content)
    if not old:
        return [], "empty"
    if old != data[sh.offset:sh.offset + sh.size]:
        # reported once per section by the identity stage; an edit position has no meaning here
        return [], "skipped-parsed-content-is-not-file-content:%s" % stype
    k = 0 if pos == "first" else len(old) - 1
    if pos == "last" and len(old) == 1:
        return [], "same-as-first"
    nb = bytes([old[k] ^ xor])
    new = old[:k] + nb + old[k + 1:]
    sig_tail = "%s:%s:%s" % (path, stype, pos)
    cap = cap_for(data)
    if path == "virt":
        if not isinstance(s, ProgBits) or not sh.addr:
            return [], "virt-not-applicable"
        # the virtual view resolves an address to the *first* section containing it
        if e.getsectionbyvad(sh.addr + k) is not s:
            return [], "virt-address-shared"

    def apply():
        if path == "assign":
            s.content = new
        elif path == "patch":
            s.content[k] = nb
        else:
            e.virt.set(sh.addr + k, nb)
        return True

    what0 = "%s: section %d (%s, %r, %#x bytes at offset %#x), %s byte %#04x -> %#04x through %s" % (
        ent["name"], i, stype, _safe(lambda: bytes(s.sh.name)), len(old), sh.offset, pos, old[k], nb[0], path)
    _, err = _guarded(apply, cap)
    if err == "cpu-cap":
        # an exception is the loader saying no; a call that never returns says nothing: confirm on a fresh object
        def again():
            e2 = ELF(data)
            s2 = e2.sh[i]
            if path == "assign":
                s2.content = new
            elif path == "patch":
                s2.content[k] = nb
            else:
                e2.virt.set(sh.addr + k, nb)
            return True
        _, err2 = _guarded(again, NONTERM_MULT * cap)
        if err2 == "cpu-cap":
            return [violation("edit:non-termination:%s" % sig_tail, what0 + ": the call does not return (CPU cap %.1fs, then %.1fs)"
                              % (cap, NONTERM_MULT * cap), case)], "violation"
        return [], "refused:%s:%s:cpu-cap-unconfirmed" % (path, stype)
    if err:
        return [], "refused:%s:%s:%s" % (path, stype, err)
    live, err = _guarded_sure(lambda: view(e), cap) if path != "patch" else (None, None)
    if err:
        return [violation("edit:live-tables-unreadable-%s:%s" % (err, sig_tail), what0 + ": the tables of the modified object cannot be read (%s)" % err, case)], "violation"
    out, err = _guarded_sure(lambda: bytes(e), cap)
    if err:
        return [violation("edit:build-%s:%s" % (err, sig_tail), what0 + ": bytes(elf) ends with %s" % err, case)], "violation"
    expected = data[:sh.offset + k] + nb + data[sh.offset + k + 1:]
    got, err = _guarded_sure(lambda: view(ELF(out)), cap, NONTERM_MULT)
    if err == "cpu-cap":
        # the loader took the change and serialised it, but never finishes reading its own output back
        return [violation("edit:reparse-non-termination:%s" % sig_tail, what0 + ": re-parsing the serialised file does not return "
                          "(CPU cap %.1fs, then %.1fs)" % (cap, NONTERM_MULT * cap), case)], "violation"
    want, werr = _guarded_sure(lambda: view(ELF(expected)), cap, NONTERM_MULT)
    if err:
        if werr:
            # the content change itself makes the file unreadable for this parser (it raises): nothing to compare with
            return [], "expected-file-unparseable:%s:%s" % (stype, werr)
        return [violation("edit:reparse-%s:%s" % (err, sig_tail), what0 + ": re-parsing the serialised file ends with %s" % err, case)], "violation"
    if werr:
        return [], "expected-file-unparseable:%s:%s" % (stype, werr)
    vs = []
    d = diff_views(want, got)
    if d:
        detail = ""
        if "section-contents" in d:
            bad = [j for j, (x, y) in enumerate(zip(want["sections"], got["sections"])) if x[3] != y[3]]
            j = bad[0]
            x, y = want["sections"][j][3], got["sections"][j][3]
            kk = next((q for q in range(min(len(x), len(y))) if x[q] != y[q]), min(len(x), len(y)))
            detail = "; section %d contents differ at +%#x (%r expected, %r read back)%s" % (
                j, kk, x[kk:kk + 4], y[kk:kk + 4], " [the edited section]" if j == i else "")
        vs.append(violation("edit:tables-differ:%s:%s" % ("+".join(d), sig_tail),
                            what0 + ": re-parsed file differs from the expected file in %s%s" % (", ".join(d), detail), case))
    if live is not None:
        # the modified object itself must already show what a re-parse of its serialisation shows
        d2 = diff_views(live, got)
        if d2:
            vs.append(violation("edit:live-object-differs-from-reparse:%s:%s" % ("+".join(d2), sig_tail),
                                what0 + ": the modified object and the re-parse of its serialisation differ in %s" % ", ".join(d2), case))
    outcome = "ok"
    if orig_view is not None:
        changed = [x for x in diff_views(orig_view, want) if x not in ("section-contents",)]
        if changed:
            outcome = "ok-derived-table-changed"
    if out != expected and not vs:
        outcome += "+bytes-differ-from-expected"
    return vs, outcome



# ---------------------------------------------------------------------------------------------------------------
# writes through the virtual-address view over windows of memory-adjacent PROGBITS sections

MAX_WINDOW = 4
SHF_ALLOC = 2


def virt_windows(data):
    """Every run of 1..MAX_WINDOW PROGBITS sections with contents that follow each other in memory without a gap
    (sh_addr + sh_size of one == sh_addr of the next), such that every address of the run resolves to the intended
    section (no earlier section of the table, like .tbss, overlaps it). Computed with the struct reader only."""
    t = elfcorpus.read_tables(data)
    secs = t["shdrs"]

    def clean(i):
        sh = secs[i]
        if sh["type"] != 1 or not sh["flags"] & SHF_ALLOC or not sh["addr"] or not sh["size"]:
            return False
        if sh["offset"] + sh["size"] > len(data):
            return False
        for j, o in enumerate(secs):
            if j != i and o["size"] and o["addr"] < sh["addr"] + sh["size"] and sh["addr"] < o["addr"] + o["size"] and (j < i or o["type"] == 1):
                return False
        return True

    good = sorted((i for i in range(len(secs)) if clean(i)), key=lambda i: secs[i]["addr"])
    out = []
    for a in range(len(good)):
        run = [good[a]]
        out.append(list(run))
        for b in range(a + 1, len(good)):
            prev, cur = secs[run[-1]], secs[good[b]]
            if prev["addr"] + prev["size"] != cur["addr"] or len(run) >= MAX_WINDOW:
                break
            run.append(good[b])
            out.append(list(run))
    return out, t


def window_pattern(n):
    """Distinct byte per position (no period below 251*256), never the value a shifted copy would put there."""
    return bytes(((k * 89) + (k >> 8) * 7 + (k // 251) + 3) & 0xFF for k in range(n))


def check_virt_window(ent, window, trim):
    """One write e.virt.set(start, data) covering the sections @window (table indices, in address order), from
    @trim bytes after the start of the first to @trim bytes before the end of the last."""
    from miasm.loader.elf_init import ELF
    _quiet()
    data = ent["data"]
    t = elfcorpus.read_tables(data)
    secs = [t["shdrs"][i] for i in window]
    start = secs[0]["addr"] + trim
    stop = secs[-1]["addr"] + secs[-1]["size"] - trim
    if stop - start < 1 or (len(window) > 1 and (secs[0]["size"] <= trim or secs[-1]["size"] <= trim)):
        return [], "window-too-small"
    case = {"k": "virtwin", "file": ent["name"], "sha256": ent["sha256"], "window": list(window), "trim": trim}
    skel = "%d-sections:%s" % (len(window), "whole" if trim == 0 else "inner")
    new = window_pattern(stop - start)
    cap = cap_for(data)
    what0 = "%s: e.virt.set(%#x, <%#x bytes>) over sections %r (%s)" % (
        ent["name"], start, len(new), window, ", ".join("%#x+%#x" % (x["addr"], x["size"]) for x in secs))
    e, err = _guarded_sure(lambda: ELF(data), cap)
    if err:
        return [], "base-parse-refused:%s" % err
    _, err = _guarded_sure(lambda: e.virt.set(start, new) or True, cap)
    if err:
        return [], "refused:virt-window:%s" % err
    # expected file: exactly the targeted file offsets patched
    exp = bytearray(data)
    pos = 0
    for x in secs:
        lo = max(start, x["addr"])
        hi = min(stop, x["addr"] + x["size"])
        exp[x["offset"] + lo - x["addr"]:x["offset"] + hi - x["addr"]] = new[pos:pos + hi - lo]
        pos += hi - lo
    exp = bytes(exp)
    vs = []
    back, err = _guarded_sure(lambda: e.virt.get(start, stop), cap)
    if err or back != new:
        k = next((q for q in range(min(len(back or b""), len(new))) if back[q] != new[q]), None) if not err else None
        vs.append(violation("virt-window:readback-%s:%s" % (err or "differs", skel), what0 + ": e.virt.get of the same range %s"
                            % ("ends with " + err if err else "differs from what was written, first at +%r" % k), case))
    if vs:
        return vs, "violation"      # what follows would only restate the same wrong contents
    out, err = _guarded_sure(lambda: bytes(e), cap)
    if err:
        return vs + [violation("virt-window:build-%s:%s" % (err, skel), what0 + ": bytes(elf) ends with %s" % err, case)], "violation"
    if out != exp:
        k = next((q for q in range(min(len(out), len(exp))) if out[q] != exp[q]), min(len(out), len(exp)))
        which = next((n for n, x in enumerate(secs) if x["offset"] <= k < x["offset"] + x["size"]), None)
        where = "section-%s-of-window" % (("1st", "2nd", "3rd", "4th")[which]) if which is not None else "outside-the-window"
        vs.append(violation("virt-window:bytes-differ:%s:%s" % (skel, where),
                            what0 + ": serialised file differs from the original with exactly that range patched, first at file offset "
                            "%#x (%s): %r instead of %r" % (k, where, out[k:k + 6], exp[k:k + 6]), case))
    if vs:
        return vs, "violation"
    got, err = _guarded_sure(lambda: ELF(out), cap)
    if err:
        vs.append(violation("virt-window:reparse-%s:%s" % (err, skel), what0 + ": re-parsing ends with %s" % err, case))
    else:
        rb, err = _guarded_sure(lambda: got.virt.get(start, stop), cap)
        if err or rb != new:
            vs.append(violation("virt-window:reparse-readback-%s:%s" % (err or "differs", skel), what0 + ": after serialise + re-parse, virt.get of the range "
                                "does not give the written bytes", case))
        want, werr = _guarded_sure(lambda: view(ELF(exp)), cap)
        gv, gerr = _guarded_sure(lambda: view(got), cap)
        if not werr and not gerr:
            d = diff_views(want, gv)
            if d:
                vs.append(violation("virt-window:tables-differ:%s:%s" % ("+".join(d), skel), what0 + ": re-parsed file differs from the expected file in %s" % ", ".join(d), case))
    return vs, ("violation" if vs else "ok")


def virtwin_stage(ent, res, add):
    windows, _ = virt_windows(ent["data"])
    for w in windows:
        for trim in (0, 1):
            try:
                vs, outcome = check_virt_window(ent, w, trim)
            except Exception as ex:
                vs, outcome = [_caught("virt-window", ent, {"k": "virtwin", "file": ent["name"], "sha256": ent["sha256"],
                                                           "window": list(w), "trim": trim}, ex)], "violation"
            if outcome == "violation" and not _judged(vs)[0]:
                outcome = "not-judged"
            if outcome == "window-too-small":
                continue
            res["n"] += 1
            if outcome in ("ok", "violation"):
                res["nt"] += 1
            _bump(res["outcomes"], "virt-window:%d-sections:%s" % (len(w), outcome))
            add(vs)

# ---------------------------------------------------------------------------------------------------------------
# deviations

def deviation_sites(data):
    """[(label, field class, offset, size)] of every ELF-header and section-header field."""
    lay = elfcorpus.Layout(data)
    t = elfcorpus.read_tables(data)
    sites = []
    for n, off in IDENT_FIELDS:
        sites.append(("ehdr." + n, "ehdr." + n, off, 1, None))
    for n, (off, sz) in lay.ehdr_fields().items():
        sites.append(("ehdr." + n, "ehdr." + n, off, sz, None))
    eh = t["ehdr"]
    for i in range(eh["shnum"]):
        base = eh["shoff"] + i * eh["shentsize"]
        for n, (off, sz) in lay.shdr_fields(base).items():
            if off + sz <= len(data):
                sites.append(("shdr[%d].%s" % (i, n), "shdr.%s:%s" % (n, sht_name(t["shdrs"][i]["type"])), off, sz, i))
    return lay, sites


def check_deviation(ent, label, fcls, off, sz, delta):
    """Return (violations, outcome)."""
    from miasm.loader.elf_init import ELF
    _quiet()
    data = ent["data"]
    lay = elfcorpus.Layout(data)
    cls = file_class(data)
    cap = cap_for(data)
    val = lay.read(data, off, sz)
    dev = lay.write(data, off, sz, val + delta)
    case = {"k": "deviation", "file": ent["name"], "sha256": ent["sha256"], "label": label, "fcls": fcls,
            "off": off, "sz": sz, "delta": delta}
    dsig = "%s:%s" % (fcls, "+1" if delta > 0 else "-1")
    what0 = "%s with %s %#x -> %#x" % (ent["name"], label, val, (val + delta) % (1 << (8 * sz)))

    guarded = lambda f: _guarded(f, cap)

    e1, err = guarded(lambda: ELF(dev))
    if err:
        return [], "refused-parse:" + err
    v1, err = guarded(lambda: view(e1))
    if err:
        return [], "refused-view:" + err
    b1, err = guarded(lambda: bytes(e1))
    if err:
        return [], "refused-build:" + err
    e2, err = _guarded_sure(lambda: ELF(b1), cap)
    if err:
        return [violation("deviation:reparse-%s:%s" % (err, dsig),
                          what0 + ": accepted and built, but parsing the built bytes ends with %s" % err, case)], "violation"
    v2, err = _guarded_sure(lambda: view(e2), cap)
    if err:
        return [violation("deviation:reparse-view-%s:%s" % (err, dsig), what0 + ": tables of the re-parsed file cannot be read (%s)" % err, case)], "violation"
    vs = []
    d = diff_views(v1, v2)
    if d:
        vs.append(violation("deviation:unstable:%s:%s" % ("+".join(d), dsig),
                            what0 + ": parse -> build -> parse changes %s" % ", ".join(d), case))
    else:
        b2, err = _guarded_sure(lambda: bytes(e2), cap)
        if err:
            vs.append(violation("deviation:rebuild-%s:%s" % (err, dsig), what0 + ": second build ends with %s" % err, case))
        elif b2 != b1:
            vs.append(violation("deviation:bytes-unstable:%s" % dsig, what0 + ": build(parse(build(parse(f)))) != build(parse(f))", case))
    if vs:
        return vs, "violation"
    return [], "accepted-identical" if b1 == dev else "accepted-identity-lost"


# ---------------------------------------------------------------------------------------------------------------

def _bump(d, k, n=1):
    d[k] = d.get(k, 0) + n


def _in_child(fn, arg):
    """Run fn(arg) in a process forked from this one and return its (pickled) result. The calling process never
    executes loader code itself, so every child starts from the state the runner had when it imported this module:
    whatever the loader memoises while it handles one shard cannot reach another shard."""
    r, w = os.pipe()
    pid = os.fork()
    if pid == 0:
        code = 0
        try:
            os.close(r)
            try:
                data = pickle.dumps(("ok", fn(arg)))
            except BaseException:
                data = pickle.dumps(("err", traceback.format_exc()))
            with os.fdopen(w, "wb") as fd:
                fd.write(data)
        except BaseException:
            code = 1
        finally:
            os._exit(code)
    os.close(w)
    with os.fdopen(r, "rb") as fd:
        data = fd.read()
    os.waitpid(pid, 0)
    if not data:
        return ("died", "")
    return pickle.loads(data)


def _capped(args):
    old = resource.getrlimit(resource.RLIMIT_AS)
    try:
        resource.setrlimit(resource.RLIMIT_AS, (MEM_CAP, old[1]))
    except (ValueError, OSError):
        pass
    return _shard_inner(args)


def _shard(args):
    status, res = _in_child(_capped, args)
    if status == "ok":
        return res
    # the shard's process died or something escaped it: never a harness error, the loader did that on a corpus file
    kind, name = args[0], args[1]
    label = name if isinstance(name, str) else "+".join(name)
    first = name if isinstance(name, str) else name[-1]
    last = [l for l in res.strip().splitlines() if l.strip()][-1:] if res else []
    exc = last[0].split(":")[0].strip() if last else "process-died"
    v = violation("parse:raise:%s:%s:%s" % (exc, kind, file_class(elfcorpus.get(first)["data"])),
                  "%s stage on %s: %s" % (kind, label, (res.strip().splitlines() or ["the process handling it died (memory cap or crash)"])[-1]),
                  {"k": "shard", "args": list(args)})
    return {"n": 1, "nt": 1, "vs": [v], "outcomes": {kind + ":escaped-exception": 1}, "sample": None, "stats": None,
            "per_sig": {v["sig"]: 1}, "digest": None}


def _caught(stage, ent, case, ex):
    """An exception of the loader that reached the harness: a violation, never a harness error."""
    tb = traceback.extract_tb(ex.__traceback__)
    where = "%s:%d" % (os.path.basename(tb[-1].filename), tb[-1].lineno) if tb else "?"
    return violation("parse:raise:%s:%s:%s" % (type(ex).__name__, stage, file_class(ent["data"])),
                     "%s stage on %s: %r escaped at %s" % (stage, ent["name"], ex, where), case)


def _shard_inner(args):
    kind, name, payload = args
    if kind == "history":
        return history_shard(name, payload)
    if kind == "file":
        # every stage of one (small) file in one process: identity first (its digest is the fresh-state result)
        secs, paths, xors, nsites = payload
        parts = [_shard_inner(("identity", name, None))]
        if secs:
            parts.append(_shard_inner(("edit", name, (secs, paths, xors))))
        parts.append(_shard_inner(("virtwin", name, None)))
        if nsites:
            parts.append(_shard_inner(("deviation", name, (0, nsites))))
        res = parts[0]
        for r in parts[1:]:
            res["n"] += r["n"]
            res["nt"] += r["nt"]
            res["vs"] += r["vs"]
            for k, v in r["outcomes"].items():
                _bump(res["outcomes"], k, v)
            for k, v in r["per_sig"].items():
                _bump(res["per_sig"], k, v)
            res["sample"] = res["sample"] or r["sample"]
        return res
    ent = elfcorpus.get(name) if not isinstance(name, dict) else name
    res = {"n": 0, "nt": 0, "vs": [], "outcomes": {}, "sample": None, "stats": None, "per_sig": {}, "digest": None}

    def add(vs):
        vs, dropped = _judged(vs)
        if dropped:
            _bump(res["outcomes"], "not_judged_memory_cap", dropped)
        for v in vs:
            c = res["per_sig"].get(v["sig"], 0)
            res["per_sig"][v["sig"]] = c + 1
            if c < 2:
                res["vs"].append(v)

    if kind == "identity":
        try:
            vs, st = check_identity(ent)
        except Exception as ex:
            vs, st = [_caught("identity", ent, {"k": "identity", "file": ent["name"], "sha256": ent["sha256"]}, ex)], {"reader_disagree": []}
        res["digest"] = st.pop("digest", None)
        res["n"] = 1
        res["nt"] = 1
        res["stats"] = st
        _bump(res["outcomes"], "identity:" + ("violation" if _judged(vs)[0] else "ok"))
        add(vs)
    elif kind == "virtwin":
        virtwin_stage(ent, res, add)
    elif kind == "edit":
        from miasm.loader.elf_init import ELF
        _quiet()
        sections, paths, xors = payload
        ov, err = _guarded_sure(lambda: view(ELF(ent["data"])), cap_for(ent["data"]))
        if err:
            _bump(res["outcomes"], "edit:base-parse-refused:" + err)
            return res
        for i in sections:
            for pos in ("first", "last"):
                for xor in xors:
                    for path in paths:
                        try:
                            vs, outcome = check_edit(ent, i, pos, xor, path, ov)
                        except Exception as ex:
                            vs, outcome = [_caught("edit", ent, {"k": "edit", "file": ent["name"], "sha256": ent["sha256"], "section": i,
                                                                 "pos": pos, "xor": xor, "path": path}, ex)], "violation"
                        if outcome == "violation" and not _judged(vs)[0]:
                            outcome = "not-judged"
                        if outcome in ("same-as-first", "virt-not-applicable", "empty"):
                            continue
                        res["n"] += 1
                        if outcome.startswith("ok") or outcome == "violation":
                            res["nt"] += 1
                        _bump(res["outcomes"], "edit:" + outcome)
                        add(vs)
                        if res["sample"] is None and outcome == "ok-derived-table-changed":
                            res["sample"] = {"file": ent["name"], "section": i, "pos": pos, "xor": xor, "path": path}
    elif kind == "deviation":
        lo, hi = payload
        lay, sites = deviation_sites(ent["data"])
        for (label, fcls, off, sz, _) in sites[lo:hi]:
            for delta in (1, -1):
                try:
                    vs, outcome = check_deviation(ent, label, fcls, off, sz, delta)
                except Exception as ex:
                    vs, outcome = [_caught("deviation", ent, {"k": "deviation", "file": ent["name"], "sha256": ent["sha256"], "label": label,
                                                              "fcls": fcls, "off": off, "sz": sz, "delta": delta}, ex)], "violation"
                if outcome == "violation" and not _judged(vs)[0]:
                    outcome = "not-judged"
                res["n"] += 1
                if outcome.startswith("accepted") or outcome == "violation":
                    res["nt"] += 1
                _bump(res["outcomes"], "deviation:" + outcome)
                add(vs)
                if res["sample"] is None and outcome == "accepted-identity-lost":
                    res["sample"] = {"file": ent["name"], "deviation": label, "delta": delta}
    return res


def _preimport():
    """Import (only import) the loader in the parent so that the per-shard children do not pay for it."""
    import gc
    import miasm.loader.elf_init  # noqa: F401
    _quiet()
    gc.collect()
    gc.freeze()      # children do not copy the parent's heap just because their collector walks it


def run(ctx):
    _preimport()
    entries, manifest = elfcorpus.load()
    paths = PATHS_QUICK if ctx.quick else PATHS_THOROUGH
    xors = XORS_QUICK if ctx.quick else XORS_THOROUGH
    shards = []
    n_edit_sections = 0
    for ent in entries:
        secs, _ = editable_sections(ent["data"])
        n_edit_sections += len(secs)
        big = len(ent["data"]) > 100000
        nsites = 0 if ctx.quick else len(deviation_sites(ent["data"])[1])
        if not big:
            # forking is expensive here (0.1-0.3 s): one process per small file does all its stages
            shards.append(("file", ent["name"], (secs, paths, xors, nsites)))
            continue
        shards.append(("identity", ent["name"], None))
        shards.append(("virtwin", ent["name"], None))
        for a in range(0, len(secs), 4):
            shards.append(("edit", ent["name"], (secs[a:a + 4], paths, xors)))
        for a in range(0, nsites, 24):
            shards.append(("deviation", ent["name"], (a, a + 24)))
    res = ctx.pmap(_shard, shards)
    # histories: ordered pairs of files handled by ONE process (quick: HISTORY_POOL_QUICK; thorough: the whole corpus), compared with the result of the second file alone
    fresh = {}
    for sh, r in zip(shards, res):
        if sh[0] in ("identity", "file") and r.get("digest"):
            fresh[sh[1]] = r["digest"]
    pool = list(HISTORY_POOL_QUICK) if ctx.quick else [e["name"] for e in entries if e["name"].split(".")[0] in HISTORY_SOURCES_THOROUGH]
    pool = [n for n in pool if n in fresh]
    hshards = [("history", (a, b), fresh[b]) for a in pool for b in pool if a != b]
    # chains: the whole corpus (quick: the files below 100 kB) in one process, in several orders
    be0 = {e["name"]: bits_end(e["data"]) for e in entries}
    allf = [e["name"] for e in entries if e["name"] in fresh and (not ctx.quick or len(e["data"]) < 100000)]
    orders = [allf, allf[::-1],
              sorted(allf, key=lambda n: (be0[n][3:5] != "64", n)), sorted(allf, key=lambda n: (be0[n][3:5] != "32", n))]
    if not ctx.quick:
        orders += [sorted(allf, key=lambda n: (be0[n], n)), sorted(allf, key=lambda n: (be0[n], n))[::-1],
                   sorted(allf, key=lambda n: (n.split(".", 1)[1], n)), sorted(allf, key=lambda n: (n.split(".", 1)[1], n))[::-1]]
    chains = [("history", tuple(o), {n: fresh[n] for n in o}) for o in orders]
    hshards = chains + hshards
    be = {e["name"]: bits_end(e["data"]) for e in entries}
    hist_classes = {}
    for _, pair, _d in hshards:
        if len(pair) == 2:
            _bump(hist_classes, "%s-then-%s" % (be[pair[0]], be[pair[1]]))
    res = res + ctx.pmap(_shard, hshards)
    n = sum(r["n"] for r in res)
    nt = sum(r["nt"] for r in res)
    outcomes, per_sig = {}, {}
    reader_disagree = []
    totals = {"nsec": 0, "nseg": 0, "nsym": 0, "ndyn": 0, "nrel": 0}
    allv = []
    for r in res:
        for k, v in r["outcomes"].items():
            _bump(outcomes, k, v)
        for k, v in r["per_sig"].items():
            _bump(per_sig, k, v)
        allv.extend(r["vs"])
        if r["stats"]:
            reader_disagree.extend(r["stats"]["reader_disagree"])
            for k in totals:
                totals[k] += r["stats"].get(k, 0)
    size_of = {e["name"]: len(e["data"]) for e in entries}
    allv.sort(key=lambda v: (v["sig"], size_of.get(v["case"].get("file"), 0), repr(v["case"])))
    seen = {}
    for v in allv:
        if seen.get(v["sig"], 0) < 2:
            seen[v["sig"]] = seen.get(v["sig"], 0) + 1
            ctx.violations.append(v)
    classes = {}
    for e in entries:
        _bump(classes, file_class(e["data"]))
    variants = {}
    for rec in manifest:
        variants.setdefault(rec["variant"], [0, 0])
        variants[rec["variant"]][0 if rec["produced"] else 1] += 1
    cov = {
        "evaluations": n,
        "distinct_nontrivial": nt,
        "samples": [r["sample"] for r in res if r["sample"]][:5],
        "exhaustive": True,
        "bounds": {"corpus_files": len(entries), "sources": sorted(elfcorpus.SOURCES), "edit_positions": ["first", "last"],
                   "edit_paths": list(paths), "xor_masks": list(xors), "deviations": (not ctx.quick),
                   "deviation_deltas": [1, -1], "cpu_cap_s": [CPU_CAP_SMALL, CPU_CAP_BIG], "mem_cap": MEM_CAP},
        "corpus_files": len(entries),
        "corpus_bytes": sum(size_of.values()),
        "corpus_classes": classes,
        "toolchain_variants_produced_failed": variants,
        "toolchain_variants_not_produced": sorted(k for k, v in variants.items() if v[0] == 0),
        "sections_with_contents": n_edit_sections,
        "parsed_totals": totals,
        "distinct_outcomes": len(outcomes),
        "outcomes": outcomes,
        "refused": sum(v for k, v in outcomes.items() if "refused" in k),
        "histories": len(hshards),
        "history_chains": len(chains),
        "history_chain_length": len(allf),
        "history_file_pool": len(pool),
        "histories_by_class_order": hist_classes,
        "histories_32_then_64_same_byte_order": sum(v for k, v in hist_classes.items() if k in ("elf32le-then-elf64le", "elf32be-then-elf64be")),
        "histories_64_then_32_same_byte_order": sum(v for k, v in hist_classes.items() if k in ("elf64le-then-elf32le", "elf64be-then-elf32be")),
        "process_model": "every shard (one file, or one history) runs in a process forked for it from a parent that never "
                         "runs loader code: per-file results are fresh-state results, histories are the only place where "
                         "one process handles several files, and each history's last result is compared with the fresh one",
        "independent_reader_disagreements": len(reader_disagree),
        "independent_reader_disagreement_list": reader_disagree[:20],
        "violating_evaluations_by_sig": per_sig,
    }
    return cov


def replay(case):
    return _judged(_replay(case))[0]


def _replay(case):
    _preimport()
    k = case["k"]
    if k == "history":
        names = case["files"]
        status, r = _in_child(_capped, ("identity", names[-1], None))
        fresh = r.get("digest") if status == "ok" else None
        status, r = _in_child(_capped, ("history", tuple(names), fresh))
        return r["vs"] if status == "ok" else _shard(("history", tuple(names), fresh))["vs"]
    if k == "chain":
        names = case["files"]
        fresh = {}
        for n in sorted(set(names)):
            status, r = _in_child(_capped, ("identity", n, None))
            if status == "ok" and r.get("digest"):
                fresh[n] = r["digest"]
        return _shard(("history", tuple(names), fresh))["vs"]
    if k == "shard":
        return _shard(list(case["args"]))["vs"]
    ent = elfcorpus.get(case["file"])
    if k == "identity":
        return check_identity(ent)[0]
    if k == "virtwin":
        return check_virt_window(ent, case["window"], case["trim"])[0]
    if k == "edit":
        return check_edit(ent, case["section"], case["pos"], case["xor"], case["path"])[0]
    if k == "deviation":
        old = resource.getrlimit(resource.RLIMIT_AS)
        try:
            resource.setrlimit(resource.RLIMIT_AS, (MEM_CAP, old[1]))
        except (ValueError, OSError):
            pass
        return check_deviation(ent, case["label"], case["fcls"], case["off"], case["sz"], case["delta"])[0]
    return []
