"""C44 - loading a binary maps its sections and imports faithfully.

Engine E2 (complete enumeration of a finite lattice of generated PE images and of the toolchain ELF corpus).

PE   every image of a sub-lattice of the C42 generator (mc/pegen.py: 32/64 bit, 4 header menus among which a
     "packed" layout whose section RVAs are not page aligned, 1..3 content sections with raw/virtual sizes from
     {0,1,0x1FF,0x200,0x201,0x1000}^2 and rotating section flags, 4 import menus) is serialised and loaded with
     vm_load_pe(align_s=True) and vm_load_pe(align_s=False); then preload_pe resolves the imports.
ELF  every file of the C43 corpus (mc/elfcorpus.py) is loaded with vm_load_elf (base 0; shared objects and PIEs
     also at base 0x40000000); then preload_elf resolves the imports (base 0, as the sandbox does).

Oracle (expected values are read from the *file bytes* with struct, never from the loader's objects)
  contents     for every section with a non-zero virtual size / every PT_LOAD segment:
               vm.get_mem(va, vsize) == file[offset : offset+min(raw, vsize)] + zeros   (before the imports are patched)
  permission   PE: every VM page that intersects the section has PAGE_WRITE iff the header asks for it
               (IMAGE_SCN_MEM_WRITE). ELF, per 4K page: a page holding a byte of a PT_LOAD with PF_W is writable; a page
               of a PT_LOAD without PF_W is not, unless that segment shares a 4K page with a writable one (the corpus has
               files linked with -z noseparate-code / -Ttext -Tdata whose data segment starts in the last text page)
  imports      every slot the loader says it resolved (libs.lib_imp2dstad) and, for PE, every slot of the model's
               import list holds an address a with libs.fad2info[a] == (library base, function) and
               libs.fad2cname[a] == canon_libname_libfunc(library, function)

Import histories  images with long import tables (mc/pegen.IMPORT_SHAPES: 255/256/257/300/600 functions of one DLL,
     the big DLL first / in the middle / last, two big DLLs; modules whose names share the stem before the first dot
     - libfoo.1.dll/libfoo.2.dll, winspool.dll/.drv, a.dll!b_c vs a_b.dll!c - importing the same names and ordinals; one
     module under two spellings) and an ELF importing 300 functions are loaded and resolved
     one after the other against ONE libimp (1..3 images per history). After the last image every slot of every
     image must hold a stub that maps back to exactly its (library, function) through fad2info and fad2cname, and no
     stub address may be held by the slots of two different imports.

Calls that raise are refusals (counted); images the C42 check already shows to be serialised wrongly (section
table over section data) are skipped and counted, they say nothing about loading.
"""
import glob
import importlib.machinery
import importlib.util
import logging
import os
import struct
import sys

from mc import elfcorpus, pegen
from mc.runner import violation

PROP = "C44"
LEVEL = "exploration"
ENGINE = "enum"
RULE = ("PE: complete product wsize x header menu x section layouts x import menu x align_s; ELF: every corpus file x "
        "load base; one case = one (image, load mode). Non-trivial = at least one section/segment was mapped and "
        "compared (PE images always have one; ELF relocatable objects have no PT_LOAD and are trivial); counters give "
        "sections compared, pages with/without PAGE_WRITE, import slots checked")
LEVEL_TEXT = ("Exhaustive over the stated lattice of generated PE images (both align_s modes) and over the whole toolchain ELF "
              "corpus: memory contents, page permissions and import slots after loading are compared with values read "
              "from the file bytes by an independent struct reader.")
LEVEL_NOTE = ("Trusted: the VmMngr extension as byte container with access flags (the installed build; under VERIF_REPO the "
              "extension of /repo is loaded, the Python loader code comes from the checkout under test), Python struct. "
              "Not covered: DLL dependency loading from disk, delay imports, TLS, ELF relocation processing (apply_reloc), "
              "PAGE_EXEC (the loaders never set it).")
TECHNIQUE = "bounded-exhaustive enumeration of generated PE images and toolchain ELF files against a struct-level reading of the file"
ASSUMPTIONS = [
    "file data of a PE section = SizeOfRawData bytes at PointerToRawData, cut at the virtual size",
    "sections with virtual size 0 are outside the oracle (counted)",
    "VmMngr get_mem/get_all_memory report what add_memory_page/set_mem stored",
]

PAGE_READ, PAGE_WRITE = 1, 2
PF_W = 2
PT_LOAD = 1
ELF_BASE_ALT = 0x40000000


def _quiet():
    for n in ("peparse", "pepy", "loader_pe", "loader_elf", "loader_common", "elfparse"):
        logging.getLogger(n).setLevel(logging.CRITICAL)


_VM = None


def vm_class():
    """miasm.jitter.VmMngr.Vm; a checkout without built extensions borrows the extension file of /repo."""
    global _VM
    if _VM is None:
        try:
            from miasm.jitter.VmMngr import Vm
        except ImportError:
            cands = sorted(glob.glob("/repo/miasm/jitter/VmMngr*.so"))
            if not cands:
                raise
            loader = importlib.machinery.ExtensionFileLoader("miasm.jitter.VmMngr", cands[0])
            spec = importlib.util.spec_from_loader("miasm.jitter.VmMngr", loader)
            mod = importlib.util.module_from_spec(spec)
            loader.exec_module(mod)
            sys.modules["miasm.jitter.VmMngr"] = mod
            Vm = mod.Vm
        _VM = Vm
    return _VM


def pages_of(vm):
    mem = vm.get_all_memory()
    return sorted((a, a + len(d["data"]), d["access"]) for a, d in mem.items())


def pages_over(pages, lo, hi):
    return [p for p in pages if p[0] < hi and lo < p[1]]


# ---------------------------------------------------------------------------------------------------------------
# PE

def raw_pe_tables(b):
    lfanew = struct.unpack_from("<I", b, 0x3c)[0]
    nsec, = struct.unpack_from("<H", b, lfanew + 6)
    optsz, = struct.unpack_from("<H", b, lfanew + 20)
    magic, = struct.unpack_from("<H", b, lfanew + 24)
    if magic == 0x20b:
        base, = struct.unpack_from("<Q", b, lfanew + 24 + 24)
    else:
        base, = struct.unpack_from("<I", b, lfanew + 24 + 28)
    off = lfanew + 24 + optsz
    secs = []
    for i in range(nsec):
        name, vsize, addr, rawsize, offset, _, _, _, _, flags = struct.unpack_from("<8sIIIIIIHHI", b, off + 40 * i)
        secs.append({"name": name.rstrip(b"\x00"), "vsize": vsize, "addr": addr, "rawsize": rawsize, "offset": offset, "flags": flags})
    return base, secs, off + 40 * nsec


def sec_skel(s):
    raw, virt = s["rawsize"], s["vsize"]
    rel = "raw0" if raw == 0 else ("raw<virt" if raw < virt else ("raw=virt" if raw == virt else "raw>virt"))
    return rel + ("/W" if s["flags"] & pegen.MEM_WRITE else "/RO")


def check_pe(spec, align_s):
    from miasm.jitter.loader.pe import vm_load_pe, preload_pe, libimp_pe
    from miasm.jitter.loader.utils import canon_libname_libfunc
    _quiet()
    case = {"k": "pe", "spec": spec, "align_s": align_s}
    st = {"outcome": None, "sections": 0, "w_pages": 0, "ro_pages": 0, "slots": 0, "vsize0": 0, "path": None}
    mode = "align_s" if align_s else "no-align_s"
    base_sig = "pe:%s:w%d/%s" % (mode, spec[0], pegen.HDR_NAMES[spec[1]])
    vs = []

    def bad(skel, what):
        sig = "%s:%s" % (base_sig, skel)
        if all(v["sig"] != sig for v in vs):
            vs.append(violation(sig, "%s [spec %r, align_s=%r]" % (what, spec, align_s), case))

    def perm_bad(sig, what):
        if all(v["sig"] != sig for v in vs):
            vs.append(violation(sig, "%s [spec %r, align_s=%r]" % (what, spec, align_s), case))

    try:
        p, model = pegen.build(spec)
        data = bytes(p)
    except Exception as e:
        st["outcome"] = "refused-create:%s" % type(e).__name__
        return vs, st
    base, secs, table_end = raw_pe_tables(data)
    first_off = min((s["offset"] for s in secs if s["rawsize"]), default=1 << 32)
    want_hdrs = [(m["name"].encode(), m["virt"], m["raw"], m["flags"]) for m in model["sections"]]
    got_hdrs = [(s["name"], s["vsize"], s["rawsize"], s["flags"]) for s in secs[:-1]]
    if table_end > first_off or want_hdrs != got_hdrs:
        st["outcome"] = "skipped-image-serialised-wrongly(C42)"
        return vs, st
    vm = vm_class()()
    try:
        pe = vm_load_pe(vm, data, align_s=align_s, name="gen")
    except Exception as e:
        if all(s["vsize"] > 0 for s in secs):
            # a well-formed image written by the loader's own builder must be loadable
            bad("load-raises-%s" % type(e).__name__, "vm_load_pe raised %r on an image whose sections all have a non-zero virtual size" % (e,))
            st["outcome"] = "violation"
        else:
            st["outcome"] = "refused-load:%s" % type(e).__name__
        return vs, st
    pages = pages_of(vm)
    st["path"] = "per-section-pages" if len(pages) > 1 else "one-big-page"
    for i, s in enumerate(secs):
        if s["vsize"] == 0:
            st["vsize0"] += 1
            continue
        st["sections"] += 1
        va = base + s["addr"]
        n = min(s["rawsize"], s["vsize"])
        want = data[s["offset"]:s["offset"] + n]
        want += b"\x00" * (s["vsize"] - len(want))
        skel = sec_skel(s)
        try:
            got = vm.get_mem(va, s["vsize"])
        except Exception as e:
            bad("section-not-readable:%s" % skel, "section %d (%r, rva %#x, virtual size %#x) cannot be read back from the VM: %r; pages %r"
                % (i, s["name"], s["addr"], s["vsize"], e, [(hex(a), hex(b), c) for a, b, c in pages]))
            continue
        if got != want:
            k = next(j for j in range(len(want)) if got[j] != want[j])
            where = "file-data" if k < n else "zero-padding"
            bad("contents:%s:%s" % (where, skel), "section %d (%r) at %#x: byte +%#x is %r, expected %r (raw %#x, virtual %#x)"
                % (i, s["name"], va, k, got[k:k + 8], want[k:k + 8], s["rawsize"], s["vsize"]))
        wanted_w = bool(s["flags"] & pegen.MEM_WRITE)
        over = pages_over(pages, va, va + s["vsize"])
        for (a, b, acc) in over:
            if acc & PAGE_WRITE:
                st["w_pages"] += 1
            else:
                st["ro_pages"] += 1
            if bool(acc & PAGE_WRITE) != wanted_w:
                perm_bad("pe:permission:%s:%s%s" % ("writable-but-header-read-only" if acc & PAGE_WRITE else "read-only-but-header-writable",
                                                   st["path"], "" if st["path"] == "one-big-page" else ":" + mode),
                    "section %d (%r, flags %#x) lies in VM page [%#x, %#x) whose access is %d" % (i, s["name"], s["flags"], a, b, acc))
                break
    # imports
    libs = libimp_pe()
    try:
        preload_pe(vm, pe, libs)
    except Exception as e:
        if model["imports"]:
            st["outcome"] = "refused-preload:%s" % type(e).__name__
            return vs, st
    psz = spec[0] // 8
    fmt = "<I" if psz == 4 else "<Q"
    for d in model["imports"]:
        lib = d["dll"].lower()
        for j, f in enumerate(d["funcs"]):
            st["slots"] += 1
            slot = base + d["firstthunk"] + j * psz
            kind = "ordinal" if isinstance(f, int) else "name"
            try:
                a = struct.unpack(fmt, vm.get_mem(slot, psz))[0]
            except Exception as e:
                bad("import-slot-unreadable:%s" % kind, "import slot %#x of %s!%r cannot be read: %r" % (slot, lib, f, e))
                continue
            libad = libs.name2off.get(lib)
            info = libs.fad2info.get(a)
            cname = libs.fad2cname.get(a)
            if libad is None or info != (libad, f):
                bad("import-slot:fad2info:%s" % kind, "slot %#x of %s!%r holds %#x; fad2info gives %r, expected %r"
                    % (slot, lib, f, a, info, (libad, f)))
            elif cname != canon_libname_libfunc(lib, f):
                bad("import-slot:fad2cname:%s" % kind, "slot %#x of %s!%r holds %#x; fad2cname gives %r" % (slot, lib, f, a, cname))
    vs += recorded_slots(vm, libs, fmt, psz, base_sig, case)
    st["outcome"] = "violation" if vs else "ok"
    return vs, st


def recorded_slots(vm, libs, fmt, psz, base_sig, case):
    """Every slot the loader recorded as resolved must hold the stub of that very function."""
    vs = []
    for libad in sorted(libs.lib_imp2dstad):
        for f in sorted(libs.lib_imp2dstad[libad], key=repr):
            for dst in sorted(x for x in libs.lib_imp2dstad[libad][f] if x is not None):
                try:
                    a = struct.unpack(fmt, vm.get_mem(dst, psz))[0]
                except Exception as e:
                    vs.append(violation("%s:recorded-slot-unreadable" % base_sig, "slot %#x recorded for %r cannot be read: %r" % (dst, f, e), case))
                    continue
                if libs.fad2info.get(a) != (libad, f):
                    vs.append(violation("%s:recorded-slot:fad2info" % base_sig,
                                        "slot %#x recorded for function %r of library %#x holds %#x which maps back to %r"
                                        % (dst, f, libad, a, libs.fad2info.get(a)), case))
    return vs


# ---------------------------------------------------------------------------------------------------------------
# ELF

def check_elf(name, load_base):
    from miasm.jitter.loader.elf import vm_load_elf, preload_elf, libimp_elf
    _quiet()
    ent = elfcorpus.get(name)
    data = ent["data"]
    t = elfcorpus.read_tables(data)
    et = {1: "REL", 2: "EXEC", 3: "DYN"}.get(t["ehdr"]["type"], "other")
    cls = "elf%d%s-%s" % (t["bits"], "le" if t["end"] == "<" else "be", et)
    case = {"k": "elf", "file": name, "sha256": ent["sha256"], "base": load_base}
    st = {"outcome": None, "segments": 0, "w_pages": 0, "ro_pages": 0, "slots": 0, "shared_4k_pages": 0}
    base_sig = "elf:%s:%s" % ("base0" if load_base == 0 else "rebased", cls)
    vs = []

    def bad(skel, what):
        sig = "%s:%s" % (base_sig, skel)
        if all(v["sig"] != sig for v in vs):
            vs.append(violation(sig, "%s: %s [load base %#x]" % (name, what, load_base), case))

    def perm_bad(sig, what):
        if all(v["sig"] != sig for v in vs):
            vs.append(violation(sig, "%s: %s [load base %#x]" % (name, what, load_base), case))

    loads = [p for p in t["phdrs"] if p["type"] == PT_LOAD]
    vm = vm_class()()
    try:
        elf = vm_load_elf(vm, data, name=name, base_addr=load_base)
    except Exception as e:
        if loads:
            bad("load-raises-%s" % type(e).__name__, "vm_load_elf raised %r on a toolchain-produced file with %d PT_LOAD segments" % (e, len(loads)))
            st["outcome"] = "violation"
        else:
            st["outcome"] = "refused-load:%s" % type(e).__name__
        return vs, st
    pages = pages_of(vm)
    for i, p in enumerate(loads):
        if p["memsz"] == 0:
            continue
        st["segments"] += 1
        va = p["vaddr"] + load_base
        want = data[p["offset"]:p["offset"] + p["filesz"]]
        want += b"\x00" * (p["memsz"] - len(want))
        skel = ("W" if p["flags"] & PF_W else "RO") + ("/bss" if p["memsz"] > p["filesz"] else "/nobss")
        try:
            got = vm.get_mem(va, p["memsz"])
        except Exception as e:
            bad("segment-not-readable:%s" % skel, "PT_LOAD %d at %#x (+%#x) cannot be read back: %r" % (i, va, p["memsz"], e))
            continue
        if got != want:
            k = next(j for j in range(len(want)) if got[j] != want[j])
            bad("contents:%s:%s" % ("file-data" if k < p["filesz"] else "zero-padding", skel),
                "PT_LOAD %d at %#x: byte +%#x is %r, expected %r (filesz %#x, memsz %#x)" % (i, va, k, got[k:k + 8], want[k:k + 8], p["filesz"], p["memsz"]))
    # permissions, judged per 4K page: a page some byte of which belongs to a writable PT_LOAD must be writable; a page
    # of a non-writable PT_LOAD must not be, unless that segment shares a 4K page with a writable one (such a segment
    # may be mapped either way: the loader merges the pages of segments that touch)
    def pages4k(p):
        lo = (p["vaddr"] + load_base) & ~0xFFF
        hi = (p["vaddr"] + load_base + max(p["memsz"], 1) + 0xFFF) & ~0xFFF
        return range(lo, hi, 0x1000)

    live = [p for p in loads if p["memsz"]]
    wpages = set(x for p in live if p["flags"] & PF_W for x in pages4k(p))
    ropages = set(x for p in live if not p["flags"] & PF_W for x in pages4k(p))
    st["shared_4k_pages"] = len(wpages & ropages)

    def access_at(addr):
        for (a, b, acc) in pages:
            if a <= addr < b:
                return acc
        return None

    for i, p in enumerate(loads):
        if p["memsz"] == 0:
            continue
        mine = list(pages4k(p))
        if p["flags"] & PF_W:
            for x in mine:
                acc = access_at(x if x >= p["vaddr"] + load_base else p["vaddr"] + load_base)
                st["w_pages" if (acc or 0) & PAGE_WRITE else "ro_pages"] += 1
                if acc is not None and not acc & PAGE_WRITE:
                    shared = "sharing-a-page-with-a-read-only-segment" if x in ropages else "alone-in-its-pages"
                    perm_bad("elf:permission:read-only-but-header-writable:%s:ET_%s" % (shared, et),
                             "PT_LOAD %d (p_flags %#x, %#x..%#x) asks for write access but its 4K page %#x is mapped with access %d"
                             % (i, p["flags"], p["vaddr"] + load_base, p["vaddr"] + load_base + p["memsz"], x, acc))
                    break
        else:
            touches_writable = any(x in wpages for x in mine)
            for x in mine:
                acc = access_at(x if x >= p["vaddr"] + load_base else p["vaddr"] + load_base)
                st["w_pages" if (acc or 0) & PAGE_WRITE else "ro_pages"] += 1
                if acc is not None and acc & PAGE_WRITE and not touches_writable:
                    perm_bad("elf:permission:writable-but-header-read-only:ET_%s" % et,
                             "PT_LOAD %d (p_flags %#x) shares no 4K page with a writable segment but its page %#x is mapped with access %d"
                             % (i, p["flags"], x, acc))
                    break
    if not loads:
        st["outcome"] = "no-loadable-segment"
        return vs, st
    # imports, the way the sandbox resolves them (no base is passed to preload_elf)
    libs = libimp_elf()
    psz = t["bits"] // 8
    fmt = t["end"] + ("I" if psz == 4 else "Q")
    try:
        preload_elf(vm, elf, libs)
    except Exception as e:
        st["outcome"] = ("violation+" if vs else "") + "refused-preload:%s" % type(e).__name__
        return vs, st
    rs = recorded_slots(vm, libs, fmt, psz, base_sig, case)
    st["slots"] = sum(len([x for x in d if x is not None]) for lib in libs.lib_imp2dstad.values() for d in lib.values())
    vs += rs
    st["outcome"] = "violation" if vs else "ok"
    return vs, st



# ---------------------------------------------------------------------------------------------------------------
# import histories: long import tables, several libraries, several images resolved against ONE libimp

PE_BASES = (0x400000, 0x1400000, 0x2400000)
ELF_MANY = {32: "many.m32.so", 64: "many.gcc.so"}

# a history = images loaded and resolved one after the other with the same Vm and the same libimp
# ("pe", shape) is an image of pegen.IMPORT_SHAPES, ("elf", file) a corpus file
IMPORT_HISTORIES_QUICK = (
    [("pe", "small")], [("pe", "n255")], [("pe", "n256")], [("pe", "n257")],
    [("pe", "big_last")], [("pe", "big_first")], [("pe", "big_middle")], [("pe", "two_big")], [("pe", "huge_first")],
    [("pe", "big_last"), ("pe", "small2")],          # the library created by the SECOND image follows an overflowing one
    [("pe", "n256"), ("pe", "small2")], [("pe", "n257"), ("pe", "small2")],
    [("pe", "small"), ("pe", "big_first")], [("pe", "big_first"), ("pe", "big_first")],
    [("pe", "two_big"), ("pe", "big_middle")],
    [("pe", "stem_versioned")], [("pe", "stem_ext")], [("pe", "stem_underscore")], [("pe", "stem_three")],
    [("pe", "same_case")], [("pe", "same_noext")],
    [("pe", "stem_versioned"), ("pe", "stem_versioned")], [("pe", "stem_ext"), ("pe", "stem_underscore")],
    [("elf", "many")], [("elf", "many"), ("pe", "small")], [("pe", "small"), ("elf", "many"), ("pe", "small2")],
)


def import_histories(tier):
    if tier == "quick":
        return [list(h) for h in IMPORT_HISTORIES_QUICK]
    items = [("pe", k) for k in sorted(pegen.IMPORT_SHAPES)] + [("elf", "many")]
    out = [[a] for a in items]
    out += [[a, b] for a in items for b in items]
    out += [[("pe", "small"), a, ("pe", "small2")] for a in items]
    # the ELF can only be loaded once per Vm (preload_elf knows no load base, so it cannot be mapped elsewhere)
    return [h for h in out if sum(1 for k, _ in h if k == "elf") <= 1]


_IMG_CACHE = {}


def _import_image(wsize, shape, base):
    k = (wsize, shape, base)
    if k not in _IMG_CACHE:
        _IMG_CACHE[k] = pegen.build_import_image(wsize, shape, base)
    return _IMG_CACHE[k]


def history_skeleton(history):
    """Class of a history for signatures: does a library that overflows its stub region (> 256 imports) exist and is
    another library created after it; do two different libraries share the module stem (name up to the first dot)
    and a function."""
    libs = []          # (normalised library name, set of functions) in creation order
    for kind, what in history:
        if kind == "pe":
            for dll, n in pegen.IMPORT_SHAPES[what]:
                name = pegen.norm_libname(dll)
                funcs = set(pegen.shape_funcs(n))
                for l in libs:
                    if l[0] == name:
                        l[1].update(funcs)
                        break
                else:
                    libs.append((name, funcs))
        else:
            if "xxx.dll" not in [l for l, _ in libs]:
                libs.append(("xxx.dll", set(range(elfcorpus.MANY_IMPORTS + 5))))
    over = [i for i, (_, fs) in enumerate(libs) if len(fs) > 256]
    if not over:
        skel = "no-library-over-256"
    else:
        skel = "library-over-256-then-new-library" if over[0] < len(libs) - 1 else "library-over-256-is-last"
    from miasm.jitter.loader.utils import canon_libname_libfunc
    canon = {}
    for name, fs in libs:
        for f in fs:
            canon.setdefault(canon_libname_libfunc(name, f), set()).add(name)
    if any(len(v) > 1 for v in canon.values()):
        skel += "+modules-with-one-canonical-name"
    return skel


def check_import_history(wsize, history):
    from miasm.jitter.loader.pe import vm_load_pe, preload_pe, libimp_pe
    from miasm.jitter.loader.elf import vm_load_elf, preload_elf
    from miasm.jitter.loader.utils import canon_libname_libfunc
    _quiet()
    case = {"k": "imports", "wsize": wsize, "history": [list(h) for h in history]}
    st = {"outcome": None, "slots": 0, "stubs": 0, "images": len(history)}
    skel = history_skeleton(history)
    vs = []

    def bad(kind, what):
        sig = "imports:%s:%s" % (skel, kind)
        if all(v["sig"] != sig for v in vs):
            vs.append(violation(sig, "%s [wsize %d, history %r]" % (what, wsize, history), case))

    vm = vm_class()()
    libs = libimp_pe()
    psz = wsize // 8
    expected = []          # (library name, function, slot address, byte order)
    try:
        for idx, (kind, what) in enumerate(history):
            if kind == "pe":
                data, model = _import_image(wsize, what, PE_BASES[idx])
                pe = vm_load_pe(vm, data, name="img%d" % idx)
                preload_pe(vm, pe, libs)
                expected += [(pegen.norm_libname(dll), f, slot, "<") for dll, f, slot in model]
            else:
                ent = elfcorpus.get(ELF_MANY[wsize])
                elf = vm_load_elf(vm, ent["data"], name=what)
                before = dict((f, set(d)) for f, d in libs.lib_imp2dstad.get(libs.name2off.get("xxx.dll"), {}).items())
                preload_elf(vm, elf, libs)
                lib = libs.name2off["xxx.dll"]
                for f in sorted(libs.lib_imp2dstad[lib], key=repr):
                    for dst in sorted(libs.lib_imp2dstad[lib][f] - before.get(f, set())):
                        expected.append(("xxx.dll", f, dst, "<"))
                want = set("imp%03d" % k for k in range(elfcorpus.MANY_IMPORTS))
                got = set(f for (l, f, _, _) in expected if l == "xxx.dll")
                if not want <= got:
                    bad("elf-imports-not-resolved", "%d of the %d imported functions of %s have no resolved slot"
                        % (len(want - got), len(want), ent["name"]))
    except Exception as e:
        bad("raise-%s" % type(e).__name__, "loading/resolving image %d raised %r" % (idx, e))
        st["outcome"] = "violation"
        return vs, st
    # every slot, read after ALL images have been resolved
    stub_of = {}
    fmt = "<I" if psz == 4 else "<Q"
    for lib, f, slot, _ in expected:
        st["slots"] += 1
        a = struct.unpack(fmt, vm.get_mem(slot, psz))[0]
        stub_of.setdefault(a, set()).add((lib, f))
        libad = libs.name2off.get(lib)
        info = libs.fad2info.get(a)
        if libad is None or info != (libad, f):
            back = None
            if info is not None:
                back = ([n for n, b in libs.name2off.items() if b == info[0]] or [hex(info[0])])[0], info[1]
            bad("slot-maps-back-to-another-function", "slot %#x imports %s!%r and holds stub %#x, which fad2info maps back to %r"
                % (slot, lib, f, a, back))
        elif libs.fad2cname.get(a) != canon_libname_libfunc(lib, f):
            bad("fad2cname-maps-back-to-another-function", "slot %#x imports %s!%r and holds stub %#x, fad2cname says %r"
                % (slot, lib, f, a, libs.fad2cname.get(a)))
        elif libs.cname2addr.get(libs.fad2cname[a]) != a and not isinstance(f, int):
            # not part of C44's statement (the canonical name is lossy by construction: module stem + function):
            # counted, and reported once in the coverage
            st["cname2addr_not_inverse"] = st.get("cname2addr_not_inverse", 0) + 1
    st["stubs"] = len(stub_of)
    shared = sorted((a, sorted(fs, key=repr)) for a, fs in stub_of.items() if len(fs) > 1)
    if shared:
        a, fs = shared[0]
        bad("stub-address-shared", "stub address %#x is held by the slots of %d different imports: %r ... (%d shared addresses)"
            % (a, len(fs), fs[:3], len(shared)))
    st["outcome"] = "violation" if vs else "ok"
    return vs, st

# ---------------------------------------------------------------------------------------------------------------

BOUNDS = {
    "quick": {"pairs": {1: pegen.size_pairs(),
                        2: [[0, 1], [1, 0], [2, 3], [3, 2], [4, 5], [5, 4], [5, 5], [2, 5]],
                        3: [[2, 5], [5, 1]]},
              "dir_menus": [(0, 0)]},
    "thorough": {"pairs": {1: pegen.size_pairs(), 2: pegen.size_pairs(),
                           3: [[0, 5], [1, 0], [2, 3], [3, 3], [4, 1], [5, 4]]},
                 "dir_menus": [(0, 0), (2, 2)], "full_3sec": True},
}


EXTREME_HDRS = (0, 3)     # header menus (default, packed) crossed with the full 36^3 three-section size lattice
EXTREME_IMPS = (3,)


def pe_cases(tier, idx, nsh):
    b = BOUNDS[tier]
    k = -1
    small = set()
    for k, lay in enumerate(pegen.section_layouts(3, b["pairs"])):
        if len(lay) == 3:
            small.add(tuple(map(tuple, lay)))
        if k % nsh != idx:
            continue
        for ws in (32, 64):
            for h in pegen.HDR_MENUS:
                for imp in range(4):
                    for (e, r) in b["dir_menus"]:
                        for align_s in (True, False):
                            yield [ws, h, lay, imp, e, r], align_s
    if b.get("full_3sec"):
        # every one of the 36^3 three-section size layouts, under the default and the packed header menu, with the
        # largest import menu
        for lay in pegen.section_layouts(3, {1: [], 2: [], 3: pegen.size_pairs()}):
            if tuple(map(tuple, lay)) in small:
                continue
            k += 1
            if k % nsh != idx:
                continue
            for ws in (32, 64):
                for h in EXTREME_HDRS:
                    for imp in EXTREME_IMPS:
                        for align_s in (True, False):
                            yield [ws, h, lay, imp, 0, 0], align_s


def _bump(d, k, n=1):
    d[k] = d.get(k, 0) + n


def _shard(args):
    kind = args[0]
    res = {"n": 0, "nt": 0, "vs": [], "outcomes": {}, "per_sig": {}, "tot": {}, "sample": None}

    def account(vs, st, prefix):
        res["n"] += 1
        _bump(res["outcomes"], prefix + ":" + str(st["outcome"]))
        for k in ("sections", "segments", "w_pages", "ro_pages", "slots", "vsize0", "shared_4k_pages"):
            if k in st:
                _bump(res["tot"], prefix + "_" + k, st[k])
        if st.get("sections") or st.get("segments"):
            res["nt"] += 1
        if st.get("path"):
            _bump(res["outcomes"], prefix + ":path:" + st["path"])
        for v in vs:
            c = res["per_sig"].get(v["sig"], 0)
            res["per_sig"][v["sig"]] = c + 1
            if c < 2:
                res["vs"].append(v)

    if kind == "pe":
        _, tier, idx, nsh = args
        for spec, align_s in pe_cases(tier, idx, nsh):
            vs, st = check_pe(spec, align_s)
            account(vs, st, "pe")
            if res["sample"] is None and st["outcome"] == "ok" and spec[3] == 3 and len(spec[2]) == 3:
                res["sample"] = {"spec": spec, "align_s": align_s}
    elif kind == "imports":
        _, tier, idx, nsh = args
        for k, hist in enumerate(import_histories(tier)):
            if k % nsh != idx:
                continue
            for ws in (32, 64):
                vs, st = check_import_history(ws, hist)
                res["n"] += 1
                res["nt"] += 1
                _bump(res["outcomes"], "imports:%s:%s" % (history_skeleton(hist), st["outcome"]))
                _bump(res["tot"], "import_history_slots", st["slots"])
                _bump(res["tot"], "import_history_stubs", st["stubs"])
                _bump(res["tot"], "import_history_cname2addr_not_inverse", st.get("cname2addr_not_inverse", 0))
                for v in vs:
                    c = res["per_sig"].get(v["sig"], 0)
                    res["per_sig"][v["sig"]] = c + 1
                    if c < 2:
                        res["vs"].append(v)
                if res["sample"] is None and len(hist) > 1:
                    res["sample"] = {"wsize": ws, "history": hist}
    else:
        _, name, base = args
        vs, st = check_elf(name, base)
        account(vs, st, "elf")
        if st["slots"]:
            res["sample"] = {"file": name, "base": base, "slots": st["slots"]}
    return res


def run(ctx):
    tier = "quick" if ctx.quick else "thorough"
    vm_class()
    entries, manifest = elfcorpus.load()
    nsh = 32 if ctx.quick else 256
    shards = [("pe", tier, i, nsh) for i in range(nsh)]
    n_elf = 0
    for ent in entries:
        t = elfcorpus.read_tables(ent["data"])
        shards.append(("elf", ent["name"], 0))
        n_elf += 1
        if t["ehdr"]["type"] == 3:
            shards.append(("elf", ent["name"], ELF_BASE_ALT))
            n_elf += 1
    nih = 16 if ctx.quick else 64
    shards = [("imports", tier, i, nih) for i in range(nih)] + shards
    res = ctx.pmap(_shard, shards)
    outcomes, per_sig, tot = {}, {}, {}
    allv = []
    for r in res:
        for k, v in r["outcomes"].items():
            _bump(outcomes, k, v)
        for k, v in r["per_sig"].items():
            _bump(per_sig, k, v)
        for k, v in r["tot"].items():
            _bump(tot, k, v)
        allv.extend(r["vs"])

    def size_key(v):
        c = v["case"]
        if c["k"] == "pe":
            return (len(c["spec"][2]), repr(c["spec"]))
        if c["k"] == "imports":
            return (len(c["history"]), repr(c["history"]) + str(c["wsize"]))
        return (len(elfcorpus.get(c["file"])["data"]), c["file"])
    allv.sort(key=lambda v: (v["sig"],) + size_key(v))
    seen = {}
    for v in allv:
        if seen.get(v["sig"], 0) < 2:
            seen[v["sig"]] = seen.get(v["sig"], 0) + 1
            ctx.violations.append(v)
    b = BOUNDS[tier]
    cov = {
        "evaluations": sum(r["n"] for r in res),
        "distinct_nontrivial": sum(r["nt"] for r in res),
        "samples": [r["sample"] for r in res if r["sample"]][:5],
        "exhaustive": True,
        "bounds": {"pe": {"wsize": [32, 64], "hdr_menus": list(pegen.HDR_NAMES), "sizes": list(pegen.SIZES),
                          "pair_alphabet_by_section_count": {str(k): v for k, v in b["pairs"].items()},
                          "import_menus": 4, "export_reloc_menus": b["dir_menus"], "align_s": [True, False],
                          "all_36^3_three_section_layouts": bool(b.get("full_3sec")),
                          "hdr_and_import_menus_for_the_36^3_part": [[pegen.HDR_NAMES[h] for h in EXTREME_HDRS], list(EXTREME_IMPS)]},
                   "import_histories": {"shapes": {k: v for k, v in sorted(pegen.IMPORT_SHAPES.items())},
                                        "histories": len(import_histories(tier)), "wsize": [32, 64],
                                        "elf_with_%d_imports" % elfcorpus.MANY_IMPORTS: sorted(ELF_MANY.values()),
                                        "rule": "quick: the listed histories; thorough: every single image, every ordered pair "
                                                "and small-X-small2 triples over all shapes and the many-imports ELF"},
                   "elf": {"corpus_files": len(entries), "load_bases": [0, ELF_BASE_ALT], "loads": n_elf}},
        "distinct_outcomes": len(outcomes),
        "outcomes": outcomes,
        "refused": sum(v for k, v in outcomes.items() if "refused" in k),
        "violating_evaluations_by_sig": per_sig,
    }
    cov.update(tot)
    return cov


def replay(case):
    if case["k"] == "pe":
        return check_pe(case["spec"], case["align_s"])[0]
    if case["k"] == "imports":
        return check_import_history(case["wsize"], [tuple(h) for h in case["history"]])[0]
    return check_elf(case["file"], case["base"])[0]
