"""C45 - imported functions get distinct, stable stub addresses.

Engine E1 (explicit-state BFS over registration histories on the real import table `libimp`, and on the PE / ELF
subclasses which inherit the two registration methods unchanged).

Events
    base NAME          lib_get_add_base(NAME)             NAME in {"a.dll", "b.dll", "A.DLL", "a", "c.dll"}
    func L F           lib_get_add_func(base of library L, F)   F in {"f", 1, 2, "1", "2"}  (names, ordinals, and
                       names spelled like an ordinal: ordinal 1 and the symbol "1" are different functions)
    many L K           K calls of lib_get_add_func(base of L, <fresh name>)  K in {253, 254, 255, 256, 300}
                       (one macro event, so that the end of a library's 0x1000 region is reached from
                        non-initial states within the depth bound)

Reference model: an injective map (library, function) -> address, its inverse, and name -> library.
Oracle, at every single registration (also inside a macro event): a known (library, function) gets the address it
got before; a new one gets an address no other (library, function) of any library owns. In every reached state, for
every registered pair: lib_imp2ad still holds its address, fad2info[address] == (library, function),
cname2addr[fad2cname[address]] == address, and fad2cname is injective over the stubs.
"""
from mc import bfs
from mc.tally import TallyCtx

PROP = "C45"
LEVEL = "model_checking"
ENGINE = "bfs"
RULE = ("BFS over histories of lib_get_add_base / lib_get_add_func / 'register K fresh functions' on a real libimp; a state is "
        "distinct by (name -> library map, per library: number of registered functions and which of the four small keys are "
        "registered); states in which the table is already inconsistent are not expanded")
LEVEL_TEXT = ("Explicit-state search of every registration history up to the depth bound on the real import table, with an injective "
              "map as reference model checked at every single registration and a full inverse-table check (fad2info, fad2cname, "
              "cname2addr, lib_imp2ad) in every reached state; the macro events put 253..300 functions into a library so every "
              "history reaches, meets exactly, or crosses the end of a library's address region.")
LEVEL_NOTE = ("Trusted: the dict-based reference map. Symmetry reduction: states that differ only in the order in which functions "
              "were registered inside a library, or in the spelling of the fresh names, are expanded once (every transition into them "
              "is still checked). Not covered: libimp_pe.add_export_lib/add_function (real PE export tables), more than three "
              "libraries, dst_ad bookkeeping (lib_imp2dstad).")
TECHNIQUE = "explicit-state BFS over registration histories on the real import table against an injective-map model"
ASSUMPTIONS = ["library identity is the Windows one: case-insensitive name, '.dll' appended when there is no extension",
               "future behaviour of the table depends on earlier registrations of a library only through their number"]

NAMES = ["a.dll", "b.dll", "A.DLL", "a", "c.dll"]
# names, ordinals, and names that are the decimal spelling of an ordinal used in the same (and in another) library:
# ordinal 1 and a symbol called "1" are two different functions
FUNCS = ["f", 1, 2, "1", "2"]
MANY = [253, 254, 255, 256, 300]
MANY_QUICK = [254, 255, 256, 300]   # with five small keys 253 adds no new way to meet the region end
# a seed = (class, how many of NAMES are offered): 4 names = two libraries with aliases, 5 names = three libraries
SEEDS = [("libimp", 4), ("libimp_pe", 4), ("libimp_elf", 4), ("libimp", 5)]
# depth bound per seed (None = not run in that tier): the subclasses only inherit the two methods (libimp_elf is an
# empty subclass), fewer levels are spent on them
DEPTH = {"quick": [5, 4, 4, None], "thorough": [6, 5, 4, 5]}
REGION = 256  # functions that fit in one 0x1000 region at 0x10 bytes per stub: only used to *classify* witnesses in signatures

_TIER = {"quick": True}


class State(object):
    pass


def _ident(name):
    n = name.lower().strip(" ")
    if "." not in n:
        n += ".dll"
    return n


def make(seed):
    import logging
    seed = tuple(seed)
    cname = seed[0]
    if cname == "libimp_pe":
        from miasm.jitter.loader.pe import libimp_pe as cls
    elif cname == "libimp_elf":
        from miasm.jitter.loader.elf import libimp_elf as cls
    else:
        from miasm.jitter.loader.utils import libimp as cls
    logging.getLogger("loader_common").setLevel(logging.ERROR)
    st = State()
    st.seed = seed
    st.seed_idx = SEEDS.index(seed)
    st.names = NAMES[:seed[1]]
    st.n = 0
    st.impl = cls()
    st.name2lib = {}     # name string as given -> library index
    st.ident2lib = {}    # normalised identity -> library index
    st.bases = []        # library index -> base address
    st.funcs = []        # library index -> list of function keys in registration order
    st.addr = {}         # (lib index, func) -> address
    st.owner = {}        # address -> (lib index, func) first owner
    st.fresh = 0
    st.broken = False
    st.last = ("init",)
    return st


def _cls(i):
    return "idx<%d" % REGION if i < REGION else "idx>=%d" % REGION


def _ftype(f):
    return "ordinal" if isinstance(f, int) else "name"


def _register(st, li, f, probs):
    """one lib_get_add_func call, checked against the model. Returns outcome class."""
    got = st.impl.lib_get_add_func(st.bases[li], f)
    key = (li, f)
    if key in st.addr:
        if got != st.addr[key]:
            st.broken = True
            probs.append(("lib_get_add_func:unstable:%s" % _ftype(f),
                          "library %d function %r got 0x%x, earlier 0x%x" % (li, f, got, st.addr[key])))
        return "known"
    idx = len(st.funcs[li])
    st.funcs[li].append(f)
    st.addr[key] = got
    if got in st.owner:
        oli, of = st.owner[got]
        oidx = st.funcs[oli].index(of)
        if not st.broken:
            probs.append(("lib_get_add_func:collision:%s:new-%s:old-%s" % (
                "same-lib" if oli == li else "other-lib", _cls(idx), _cls(oidx)),
                "function #%d (%r) of library %d (base 0x%x) got stub 0x%x which already belongs to function #%d (%r) of library %d (base 0x%x)" % (
                    idx, f, li, st.bases[li], got, oidx, of, oli, st.bases[oli])))
        st.broken = True
        return "collision"
    st.owner[got] = key
    return "new:" + _cls(idx)


def apply(st, ev):
    probs = []
    kind = ev[0]
    st.last = (kind,)
    st.n += 1
    try:
        if kind == "base":
            name = ev[1]
            got = st.impl.lib_get_add_base(name)
            ident = _ident(name)
            if name in st.name2lib:
                if st.bases[st.name2lib[name]] != got:
                    st.broken = True
                    probs.append(("lib_get_add_base:unstable", "%r got base 0x%x, earlier 0x%x" % (name, got, st.bases[st.name2lib[name]])))
                st.last = (kind, "known-name")
            elif ident in st.ident2lib:
                li = st.ident2lib[ident]
                if st.bases[li] != got:
                    st.broken = True
                    probs.append(("lib_get_add_base:alias-split", "%r is library %r but got base 0x%x instead of 0x%x" % (name, ident, got, st.bases[li])))
                st.name2lib[name] = li
                st.last = (kind, "alias")
            else:
                if got in st.bases:
                    st.broken = True
                    probs.append(("lib_get_add_base:shared-base", "new library %r got base 0x%x of library %d" % (name, got, st.bases.index(got))))
                st.bases.append(got)
                st.funcs.append([])
                st.name2lib[name] = st.ident2lib[ident] = len(st.bases) - 1
                st.last = (kind, "new-lib")
        elif kind == "func":
            st.last = (kind, _ftype(ev[2]), _register(st, ev[1], ev[2], probs))
        elif kind == "many":
            ocs = set()
            for i in range(ev[2]):
                ocs.add(_register(st, ev[1], "x%d" % st.fresh, probs))
                st.fresh += 1
            st.last = (kind, "+".join(sorted(ocs)))
    except Exception as e:
        st.broken = True
        probs.append(("%s:raise:%s" % (kind, type(e).__name__), "event %r raised %r" % (ev, e)))
    return probs


def invariant(st):
    probs = []
    t = st.impl
    seen = set()

    def bad(sig, what):
        if sig not in seen:  # one witness per clause and state
            seen.add(sig)
            probs.append((sig, what))

    for (li, f), a in st.addr.items():
        base = st.bases[li]
        where = "library %d (base 0x%x) function %r stub 0x%x" % (li, base, f, a)
        if t.lib_imp2ad.get(base, {}).get(f) != a:
            bad("lib_imp2ad:changed:%s" % _ftype(f), "%s: lib_imp2ad now says %r" % (where, t.lib_imp2ad.get(base, {}).get(f)))
        info = t.fad2info.get(a)
        if info is None:
            bad("fad2info:missing:%s" % _ftype(f), "%s: no fad2info entry" % where)
        elif tuple(info) != (base, f):
            bad("fad2info:wrong-owner", "%s: fad2info maps the stub back to %r" % (where, info))
        cname = t.fad2cname.get(a)
        if cname is None:
            bad("fad2cname:missing:%s" % _ftype(f), "%s: no fad2cname entry" % where)
        elif t.cname2addr.get(cname) != a:
            bad("cname2addr:roundtrip", "%s: fad2cname = %r but cname2addr[%r] = %r" % (where, cname, cname, t.cname2addr.get(cname)))
    # distinct stubs have distinct canonical names (handlers are dispatched by canonical name)
    byname = {}
    for (li, f), a in st.addr.items():
        cname = t.fad2cname.get(a)
        if cname is None:
            continue
        if cname in byname and byname[cname][2] != a:
            oli, of, oa = byname[cname]
            kinds = sorted([_ftype(f), _ftype(of)])
            bad("fad2cname:not-injective:%s:%s+%s" % ("same-lib" if oli == li else "other-lib", kinds[0], kinds[1]),
                "stubs 0x%x (library %d function %r) and 0x%x (library %d function %r) share the canonical name %r" % (
                    oa, oli, of, a, li, f, cname))
        else:
            byname[cname] = (li, f, a)
    if probs:
        st.broken = True
    return probs


def events(st):
    bound = DEPTH["quick" if _TIER["quick"] else "thorough"][st.seed_idx]
    if st.broken or bound is None or st.n >= bound or invariant(st):
        return []
    evs = [("base", n) for n in st.names]
    for li in range(len(st.bases)):
        for f in FUNCS:
            evs.append(("func", li, f))
    for li in range(len(st.bases)):
        for k in (MANY_QUICK if _TIER["quick"] else MANY):
            evs.append(("many", li, k))
    return evs


def canon(st):
    return (st.seed, tuple(sorted(st.name2lib.items())),
            tuple((len(fs), tuple(sorted((repr(f) for f in fs if f in FUNCS)))) for fs in st.funcs),
            st.broken)


def outcome(st, ev):
    return st.last


def run(ctx):
    import sys
    _TIER["quick"] = ctx.quick
    depths = DEPTH[ctx.tier]
    depth = max(d for d in depths if d is not None)
    seeds = SEEDS   # all seeds are always passed so that seed indexes in recorded cases are stable; unused ones stay at depth 0
    tctx = TallyCtx(ctx)
    cov = bfs.explore(tctx, sys.modules[__name__], max_depth=depth, seeds=seeds, chunk=4)
    cov["outcome_counts"] = tctx.table()
    cov["bounds"] = {"seeds_class_and_number_of_names": [list(x) for x in SEEDS], "depth_per_seed": depths, "names": NAMES,
                     "funcs": FUNCS, "macro_sizes": MANY_QUICK if ctx.quick else MANY}
    return cov


def replay(case):
    import sys
    return bfs.replay(sys.modules[__name__], SEEDS, case)
