"""C46 - the sandboxed file system never escapes its base directory.

Engine E2 (complete enumeration of a finite lattice of path strings), oracle: the host kernel's own
view of the returned path (os.path.realpath, evaluated inside a real sandbox built in a temp dir).

Space
  guest path strings = every sequence of <= MAXC components over COMPONENTS, absolute or relative,
  with or without a trailing separator (duplicates that denote the same string are evaluated once):
    * FileSystem.resolve_path(path, follow_link in {True, False}), path given as str and as bytes,
      under every symlink layout of LAYOUTS and every passthrough set of PASSTHROUGH;
      plus a second lattice over PT_COMPONENTS (it contains "dev" and "null") so that inputs really
      hit the configured passthrough entry "/dev/null" (directly, through '..', doubled slashes ...);
    * unix_to_sbpath(path) (str), every layout;
    * windows_to_sbpath(path) (str): components joined by backslash and by slash, with and without a
      drive prefix "C:", every layout.
  The sandbox is a real directory tree <tmp>/work/file_sb (the process chdir()s to <tmp>/work, the base
  is the default relative "file_sb" exactly as LinuxEnvironment / BASE_SB_PATH use it).  It contains
  a/, a/a/, .../ and the symbolic links of the layout at file_sb/lnk and file_sb/a/lnk.  Next to the base,
  <tmp>/work/file_sb_backup/ and <tmp>/work/file_sb2/ really exist (names that have the base name as a string
  prefix); the SIBLING_LAYOUTS link to them relatively, absolutely and through a chain.  The check's own
  containment test is component-wise (os.path.commonpath).
  Long chains lnk -> k2 -> ... -> k<n> -> end (n around 8, 16, 32, 40, 64, 128, 256; end = directory, file,
  '../..', '/etc') and link loops exercise any bound on the number of links a resolver follows; every call
  runs under a recursion budget and a wall-clock budget (a hang is reported, a RecursionError is a refusal).

Oracle
  the returned host path, as the host OS would resolve it (realpath; for follow_link=False the final
  component is not followed, like lstat/readlink), must be realpath(base) or below it, unless the
  *input* denotes a configured passthrough entry.  A call that raises is a refusal, never an escape.
"""
import importlib.util
import itertools
import os
import shutil
import signal
import sys
import tempfile
import types

from mc.runner import violation

PROP = "C46"
LEVEL = "exploration"
ENGINE = "enum"
RULE = ("every guest path string made of <= MAXC components over {'a','..','.','','lnk','...'} x {absolute, relative} x "
        "{trailing separator or not} (x {str, bytes} for resolve_path, x {backslash, slash} x {drive prefix or not} for "
        "windows_to_sbpath), each under every symlink layout (and passthrough set for resolve_path); distinct = distinct "
        "string per API variant; non-trivial = the string contains a '..' or a symlink component, or denotes the "
        "passthrough entry")
LEVEL_TEXT = ("Bounded-exhaustive: every path string of the lattice is passed to the real FileSystem.resolve_path / "
              "unix_to_sbpath / windows_to_sbpath inside a real sandbox directory containing real symbolic links, and the "
              "returned host path is resolved by the host (os.path.realpath) and compared with the sandbox base. The "
              "mapping functions are component-generic (they never look at the name of a component other than '', '.', "
              "'..' and whether it is a link), so five components over this alphabet contain every arrangement of "
              "climbing, descending, repeated separators and link traversal up to depth five.")
LEVEL_NOTE = ("Trusted: os.path.realpath / lstat of the host. Not covered: the users of the mapping (open_, CreateFile ...) "
              "beyond the path they obtain; regular-expression passthrough entries; link loops; base_path given as an "
              "absolute path; component names with upper case (windows_to_sbpath lower-cases) or non-ASCII characters.")
TECHNIQUE = "complete enumeration of a path-string lattice against host path resolution in a real sandbox with symlinks"
ASSUMPTIONS = ["os.path.realpath reflects what the host kernel would open",
               "a guest path denotes a passthrough entry iff its lexical or its symlink-aware normalisation equals it",
               "with follow_link=False the caller does not follow the final component (lstat/readlink semantics)"]

COMPONENTS = ("a", "..", ".", "", "lnk", "...")
PT_COMPONENTS = ("dev", "null", "..", "", "a", "lnk")
# name, links created in file_sb/ and in file_sb/a/
LAYOUTS = [
    ("lnk->a", {"lnk": "a"}),
    ("lnk->..", {"lnk": ".."}),
    ("lnk->../..", {"lnk": "../.."}),
    ("lnk->/etc", {"lnk": "/etc"}),
    ("lnk->a/../..", {"lnk": "a/../.."}),
    ("lnk->lnk2->../..", {"lnk": "lnk2", "lnk2": "../.."}),
    # thorough tier only (N_LAYOUTS_QUICK = 6)
    ("lnk->/", {"lnk": "/"}),
    ("lnk->.", {"lnk": "."}),
    ("lnk->/../..", {"lnk": "/../.."}),
    ("lnk->/dev/null", {"lnk": "/dev/null"}),      # a link whose target is the passthrough entry
    # both tiers (SIBLING_LAYOUTS): links to directories that really exist NEXT TO the base and whose names have the
    # base name as a string prefix (work/file_sb_backup, work/file_sb2) - a character-wise prefix test accepts them.
    # @WORK@ is replaced by the absolute path of the directory holding the base.
    ("lnk->../file_sb_backup", {"lnk": "../file_sb_backup"}),
    ("lnk->@WORK@/file_sb2", {"lnk": "@WORK@/file_sb2"}),
    ("lnk->lnk2->../file_sb_backup", {"lnk": "lnk2", "lnk2": "../file_sb_backup"}),
    ("lnk->../../file_sb_backup", {"lnk": "../../file_sb_backup"}),     # reaches the sibling from file_sb/a/lnk
]
N_LAYOUTS_QUICK = 6
SIBLING_LAYOUTS = [10, 11, 12, 13]
SIBLINGS = ("file_sb_backup", "file_sb2")

# Long link chains (both tiers): lnk -> k2 -> k3 -> ... -> k<n> -> end, n links in all, created in file_sb/ and in
# file_sb/a/.  Any numeric bound inside a resolver is a boundary, so the lengths sit around the usual limits
# (8, 16, 32, MAXSYMLINKS = 40, 64, 128, 256).  Ends: a directory, a regular file, a relative target with enough '..'
# to leave the base, an absolute target.  Loops (k<n> -> lnk) must be refused or stay inside, never escape, never hang.
CHAIN_LENGTHS = [1, 2, 8, 15, 16, 17, 31, 32, 33, 39, 40, 41, 42, 63, 64, 65, 100, 127, 128, 129, 255, 256, 257]
CHAIN_LENGTHS_QUICK = [1, 2, 8, 16, 32, 39, 40, 41, 42, 64, 100, 128, 256]
CHAIN_ENDS = ["a", "a/f", "../..", "/etc"]
LOOP_LENGTHS = [1, 2, 40, 41]
CALL_BUDGET_S = 20          # wall-clock budget of one call (a hang is a finding, not a stuck check)
RECURSION_LIMIT = 600       # per-call budget of a recursive resolver: enough for 257 links, a loop ends in RecursionError
CHAIN_COMPONENTS = ("a", "..", "lnk")      # path lattice used under the chain layouts (the main lattice has the rest)


def chain_layout(n, end):
    names = ["lnk"] + ["k%d" % i for i in range(2, n + 1)]
    return dict((name, names[i + 1] if i + 1 < len(names) else end) for i, name in enumerate(names))


CHAIN_LAYOUTS = {}          # (n, end) -> layout index;  ("loop", n) -> layout index
for _n in CHAIN_LENGTHS:
    for _end in CHAIN_ENDS:
        CHAIN_LAYOUTS[(_n, _end)] = len(LAYOUTS)
        LAYOUTS.append(("chain of %d links ->%s" % (_n, _end), chain_layout(_n, _end)))
for _n in LOOP_LENGTHS:
    CHAIN_LAYOUTS[("loop", _n)] = len(LAYOUTS)
    LAYOUTS.append(("loop of %d links" % _n, chain_layout(_n, "lnk")))


# Module state: every shard, every history case and every replay runs miasm.os_dep.common and
# miasm.os_dep.linux.environment RE-EXECUTED FROM SOURCE into a private module object, so a recorded case never depends
# on what the process converted before (module-level memo tables, counters ...).  History is explored on purpose,
# by the "history" family below, and then it is part of the recorded case.
_CODE = {}


def fresh_module(name):
    spec = importlib.util.find_spec(name)
    if name not in _CODE:
        with open(spec.origin) as fd:
            _CODE[name] = compile(fd.read(), spec.origin, "exec")
    mod = types.ModuleType(name)
    mod.__file__ = spec.origin
    mod.__package__ = name.rpartition(".")[0]
    exec(_CODE[name], mod.__dict__)
    handler = getattr(mod, "console_handler", None)
    if handler is not None and hasattr(mod, "log"):
        mod.log.removeHandler(handler)          # environment.py adds one handler to a global logger per execution
    return mod


class Hang(BaseException):
    """Raised by the SIGALRM handler when one call exceeds CALL_BUDGET_S."""


def _on_alarm(signum, frame):
    raise Hang()


def guarded(fn, *args, **kwargs):
    signal.setitimer(signal.ITIMER_REAL, CALL_BUDGET_S)
    try:
        return fn(*args, **kwargs)
    finally:
        signal.setitimer(signal.ITIMER_REAL, 0)
PASSTHROUGH = [[], ["/dev/null"]]
BASE = "file_sb"
KEEP_PER_SIG = 2          # violation records kept per signature and shard (totals are counted)


# ------------------------------------------------------------------------------------------------
# lattice

def unix_strings(components, maxc):
    seen = set()
    for n in range(maxc + 1):
        for comps in itertools.product(components, repeat=n):
            body = "/".join(comps)
            for absolute in (False, True):
                for trail in (False, True):
                    seen.add(("/" if absolute else "") + body + ("/" if trail else ""))
    return sorted(seen, key=lambda s: (len(s), s))


def windows_strings(components, maxc, sep, drive):
    seen = set()
    for n in range(maxc + 1):
        for comps in itertools.product(components, repeat=n):
            body = sep.join(comps)
            for absolute in (False, True):
                for trail in (False, True):
                    seen.add(drive + (sep if absolute else "") + body + (sep if trail else ""))
    return sorted(seen, key=lambda s: (len(s), s))


# ------------------------------------------------------------------------------------------------
# guest-side model (only used to classify inputs and to decide "the input denotes a passthrough entry")

def lexical_guest(path, sep="/"):
    """-> (normalised absolute guest path, climbs above the root?, normalised component list)"""
    stack = []
    climbs = False
    for c in path.split(sep):
        if c in ("", "."):
            continue
        if c == "..":
            if stack:
                stack.pop()
            else:
                climbs = True
        else:
            stack.append(c)
    return "/" + "/".join(stack), climbs, stack


def physical_guest(path, links):
    """Resolve @path the way a guest kernel rooted at the sandbox would (links: guest abs path -> target)."""
    cur = []
    todo = [c for c in path.split("/")]
    budget = 64
    while todo:
        c = todo.pop(0)
        if c in ("", "."):
            continue
        if c == "..":
            if cur:
                cur.pop()
            continue
        cand = "/" + "/".join(cur + [c])
        if cand in links and budget:
            budget -= 1
            target = links[cand]
            if target.startswith("/"):
                cur = []
            todo = target.split("/") + todo
        else:
            cur.append(c)
    return "/" + "/".join(cur)


def guest_links(layout):
    out = {}
    for name, target in layout.items():
        out["/" + name] = target
        out["/a/" + name] = target
    return out


def input_class(path, sep="/"):
    _, climbs, stack = lexical_guest(path, sep)
    rooted = "abs" if path.startswith(sep) else "rel"
    inner = any(c.startswith("lnk") for c in stack[:-1])
    final = bool(stack) and stack[-1].startswith("lnk")
    lnk = {(False, False): "no-lnk", (True, False): "lnk-inner", (False, True): "lnk-final",
           (True, True): "lnk-inner+final"}[(inner, final)]
    return "%s:%s:%s" % (rooted, "climbs-above-root" if climbs else "no-climb", lnk)


def nontrivial(path, sep="/"):
    comps = path.split(sep)
    return ".." in comps or "lnk" in comps or ("dev" in comps and "null" in comps)


# ------------------------------------------------------------------------------------------------
# sandbox

def _stack_depth():
    out = []
    f = sys._getframe()
    while f is not None:
        out.append(f)
        f = f.f_back
    return out


class Sandbox(object):
    """<root>/work is the cwd, <root>/work/file_sb the base."""

    def __init__(self, layout_idx):
        self.layout_name, self.layout = LAYOUTS[layout_idx]
        self.root = None
        self.old_cwd = None
        self.cache = {}

    def __enter__(self):
        self.old_cwd = os.getcwd()
        self.root = os.path.realpath(tempfile.mkdtemp(prefix="verif_c46_"))
        self.work = os.path.join(self.root, "work")
        self.base = os.path.join(self.work, BASE)
        os.makedirs(os.path.join(self.base, "a", "a"))
        os.makedirs(os.path.join(self.base, "..."))
        for d in (os.path.join(self.base, "a"), os.path.join(self.base, "a", "a")):
            with open(os.path.join(d, "f"), "w") as fd:
                fd.write("x")
        for sibling in SIBLINGS + ("other_sb",):
            os.makedirs(os.path.join(self.work, sibling, "a"))
        self.layout = dict((name, target.replace("@WORK@", self.work)) for name, target in self.layout.items())
        for where in (self.base, os.path.join(self.base, "a")):
            for name, target in self.layout.items():
                os.symlink(target, os.path.join(where, name))
        os.chdir(self.work)
        self._common = self._env = None
        self.old_limit = sys.getrecursionlimit()
        sys.setrecursionlimit(len(_stack_depth()) + RECURSION_LIMIT)
        self.old_handler = signal.signal(signal.SIGALRM, _on_alarm)
        self.base_real = os.path.realpath(self.base)
        self.base_parts = self.base.split(os.sep)
        self.links = guest_links(self.layout)
        return self

    def __exit__(self, *exc):
        try:
            signal.setitimer(signal.ITIMER_REAL, 0)
            signal.signal(signal.SIGALRM, self.old_handler)
            sys.setrecursionlimit(self.old_limit)
            os.chdir(self.old_cwd)
        finally:
            shutil.rmtree(self.root, ignore_errors=True)
        return False

    @property
    def common(self):
        if self._common is None:
            self._common = fresh_module("miasm.os_dep.common")
        return self._common

    @property
    def env(self):
        if self._env is None:
            self._env = fresh_module("miasm.os_dep.linux.environment")
        return self._env

    def set_base(self, name):
        """The sandbox base is now <work>/<name> (history family: BASE_SB_PATH / base_path re-configured)."""
        self.base = os.path.join(self.work, name)
        self.base_real = os.path.realpath(self.base)
        self.base_parts = self.base.split(os.sep)
        self.cache = {}

    # -- oracle ------------------------------------------------------------------------------
    def _inside(self, p):
        """Component-wise containment (never a string prefix: work/file_sb2 is not inside work/file_sb)."""
        return os.path.isabs(p) and os.path.commonpath([p, self.base_real]) == self.base_real

    def verdict(self, result, nofollow, relative_api):
        """-> None (inside) or an escape kind."""
        key = (result, nofollow, relative_api)
        if key in self.cache:
            return self.cache[key]
        r = os.fsdecode(result) if isinstance(result, bytes) else result
        if not isinstance(r, str):
            kind = "not-a-path"
        else:
            lex = os.path.normpath(os.path.join(self.work, r))
            if nofollow and not r.endswith("/") and os.path.basename(r) not in ("", ".", ".."):
                head, tail = os.path.split(r)
                phys = os.path.join(os.path.realpath(head or "."), tail)
            else:
                phys = os.path.realpath(r)
            if not self._inside(lex):
                if not os.path.isabs(r) and not relative_api:
                    kind = "relative-result"          # a guest path handed back as if it were a host path
                elif os.path.join(self.work, r).split(os.sep)[:len(self.base_parts)] == self.base_parts:
                    kind = "dotdot-above-base"        # base/../..: '..' components survive the mapping
                elif not os.path.isabs(r):
                    kind = "below-another-base"       # a relative result that is not below the current base
                else:
                    kind = "absolute-outside"
            elif not self._inside(phys):
                kind = "host-follows-symlink"         # textually inside, the host follows a link out of the base
            else:
                kind = None
        self.cache[key] = kind
        return kind


class Tally(object):
    def __init__(self):
        self.n = 0
        self.outcomes = {}
        self.vs = []
        self.per_sig = {}
        self.results = set()
        self.tmp_root = None

    def outcome(self, api, o):
        self.n += 1
        k = "%s|%s" % (api, o)
        self.outcomes[k] = self.outcomes.get(k, 0) + 1

    def add(self, v):
        if self.tmp_root:
            v["what"] = v["what"].replace(self.tmp_root, "<tmp>")     # keep the witness text run-independent
        c = self.per_sig.get(v["sig"], 0)
        self.per_sig[v["sig"]] = c + 1
        if c < KEEP_PER_SIG:
            self.vs.append(v)


# ------------------------------------------------------------------------------------------------
# the three APIs

def resolve_cause(path, kind):
    """The input feature that explains an escape of this kind (narrow signature = API + kind + cause)."""
    _, climbs, stack = lexical_guest(path)
    inner = any(c.startswith("lnk") for c in stack[:-1])
    final = bool(stack) and stack[-1].startswith("lnk")
    if kind == "dotdot-above-base":
        if climbs and not path.startswith("/"):
            return "relative-leading-dotdot"
        if final:
            return "final-link-target-climbs"
    elif kind == "host-follows-symlink":
        if inner:
            return "inner-link"
        if final:
            return "final-link"
    elif kind in ("relative-result", "absolute-outside"):
        if final:
            return "final-link"
    return "unexplained:" + input_class(path)


def check_resolve(sb, fs, pt, path, tally, layout_idx):
    """path: str; evaluated as str and as bytes, with follow_link True and False."""
    lex, _, _ = lexical_guest(path)
    # lenient on purpose: lexical, symlink-aware, and lexical-then-symlink-aware readings of the input all count
    allowed = bool(pt) and (lex in pt or physical_guest(path, sb.links) in pt or physical_guest(lex, sb.links) in pt)
    str_found = None
    for as_bytes in (False, True):
        arg = path.encode() if as_bytes else path
        found = {}                      # follow -> (kind, cause, result)
        for follow in (True, False):
            api = "resolve_path[%s]" % ("follow" if follow else "nofollow")
            try:
                res = guarded(fs.resolve_path, arg, follow_link=follow)
            except Hang:
                tally.outcome(api, "hang")
                tally.add(violation(
                    "%s:hang:%s" % (api, resolve_cause(path, "host-follows-symlink")),
                    "layout %s, passthrough %r: resolve_path(%r, follow_link=%r) did not return within %d s" % (
                        sb.layout_name, pt, arg, follow, CALL_BUDGET_S),
                    {"api": "resolve_path", "layout": layout_idx, "pt": pt, "path": path}))
                continue
            except RecursionError:
                tally.outcome(api, "refused:RecursionError")
                continue
            except Exception as e:
                tally.outcome(api, "refused:%s" % type(e).__name__)
                continue
            tally.results.add(res)
            kind = sb.verdict(res, not follow, False)
            if kind is None:
                tally.outcome(api, "inside")
            elif allowed:
                tally.outcome(api, "passthrough-allowed")
            else:
                tally.outcome(api, "escape:" + kind)
                found[follow] = (kind, resolve_cause(path, kind), res)
        if not as_bytes:
            str_found = found
        suffix = ""
        if as_bytes:
            # the bytes twin is only reported where it behaves differently from the str twin
            found = dict((f, v) for f, v in found.items() if str_found.get(f, (None, None))[:2] != v[:2])
            suffix = ":bytes-differs-from-str"
        if len(found) == 2 and found[True][:2] == found[False][:2]:
            emit = [("any", found[True], True)]
        else:
            emit = [("follow" if f else "nofollow", found[f], f) for f in (True, False) if f in found]
        for mode, (kind, cause, res), follow in emit:
            tally.add(violation(
                "resolve_path[%s]:%s:%s%s" % (mode, kind, cause, suffix),
                "layout %s, passthrough %r: resolve_path(%r, follow_link=%r) = %r, which the host resolves outside the "
                "base %r" % (sb.layout_name, pt, arg, follow, res, sb.base),
                {"api": "resolve_path", "layout": layout_idx, "pt": pt, "path": path}))


def sbpath_sig(api, path, sep, kind):
    """*_to_sbpath do no link handling and no passthrough: the escape kind names the cause, unless the input lacks it."""
    _, climbs, stack = lexical_guest(path, sep)
    explained = climbs if kind == "dotdot-above-base" else (
        any(c.startswith("lnk") for c in path.split(sep)) if kind == "host-follows-symlink" else False)
    return "%s:%s%s" % (api, kind, "" if explained else ":unexplained:" + input_class(path, sep))


def check_unix(sb, path, tally, layout_idx):
    unix_to_sbpath = sb.common.unix_to_sbpath
    api = "unix_to_sbpath"
    try:
        res = guarded(unix_to_sbpath, path)
    except Exception as e:
        tally.outcome(api, "refused:%s" % type(e).__name__)
        return
    tally.results.add(res)
    kind = sb.verdict(res, False, True)
    if kind is None:
        tally.outcome(api, "inside")
        return
    tally.outcome(api, "escape:" + kind)
    tally.add(violation(
        sbpath_sig(api, path, "/", kind),
        "layout %s: unix_to_sbpath(%r) = %r, which the host resolves outside the base %r" % (sb.layout_name, path, res, BASE),
        {"api": api, "layout": layout_idx, "path": path}))


def check_windows(sb, path, sep, drive, tally, layout_idx):
    windows_to_sbpath = sb.common.windows_to_sbpath
    api = "windows_to_sbpath"
    try:
        res = guarded(windows_to_sbpath, path)
    except Exception as e:
        tally.outcome(api, "refused:%s" % type(e).__name__)
        return
    tally.results.add(res)
    kind = sb.verdict(res, False, True)
    if kind is None:
        tally.outcome(api, "inside")
        return
    tally.outcome(api, "escape:" + kind)
    body = path[len(drive):]
    tally.add(violation(
        sbpath_sig(api, body, sep, kind),
        "layout %s: windows_to_sbpath(%r) = %r, which the host resolves outside the base %r" % (sb.layout_name, path, res, BASE),
        {"api": "windows_to_sbpath", "layout": layout_idx, "path": path, "sep": sep, "drive": drive}))


def make_fs(sb, pt, base=BASE):
    fs = sb.env.FileSystem(base, None)
    fs.passthrough = list(pt)
    return fs


# ------------------------------------------------------------------------------------------------
# history family: the same guest path converted twice, with a change of the sandbox in between

HISTORY_COMPONENTS = ("a", "lnk", "..")
# name -> (class used in the signature, prepare, change);  steps: ("dir->link", name, target) replaces directory
# file_sb/<name> by a link, ("retarget", name, target) re-points a link, ("link->dir", name) the reverse,
# ("base", new base directory name).  Stage 1 is layout 0: file_sb/a is a directory, file_sb/lnk -> "a".
HISTORY_CHANGES = [
    ("a: directory, then link to ..", "dir->outside-link", None, ("dir->link", "a", "..")),
    ("a: directory, then link to /etc", "dir->outside-link", None, ("dir->link", "a", "/etc")),
    ("a: directory, then link to ../file_sb_backup", "dir->outside-link", None, ("dir->link", "a", "../file_sb_backup")),
    ("lnk: ->a, then ->..", "link-retargeted", None, ("retarget", "lnk", "..")),
    ("lnk: ->a, then ->/etc", "link-retargeted", None, ("retarget", "lnk", "/etc")),
    ("lnk: ->a, then ->../file_sb2", "link-retargeted", None, ("retarget", "lnk", "../file_sb2")),
    ("a: link to .., then directory", "outside-link->dir", ("dir->link", "a", ".."), ("link->dir", "a")),
    ("base: file_sb, then file_sb2", "base-changed", None, ("base", "file_sb2")),
    ("base: file_sb, then other_sb", "base-changed", None, ("base", "other_sb")),
]
# API variants: (function, separator, drive, follow_link, bytes, how a base change reaches a FileSystem)
HISTORY_APIS = [("unix_to_sbpath", "/", "", None, False, None),
                ("windows_to_sbpath", "\\", "", None, False, None),
                ("windows_to_sbpath", "\\", "C:", None, False, None),
                ("windows_to_sbpath", "/", "", None, False, None)]
HISTORY_APIS += [("resolve_path", "/", "", follow, as_bytes, how)
                 for follow in (True, False) for as_bytes in (False, True) for how in ("new-instance", "same-instance")]


def history_strings(api, maxc):
    if api[0] == "windows_to_sbpath":
        return windows_strings(HISTORY_COMPONENTS, maxc, api[1], api[2])
    return unix_strings(HISTORY_COMPONENTS, maxc)


def apply_step(sb, step):
    if step is None:
        return
    if step[0] == "dir->link":
        shutil.rmtree(os.path.join(sb.base, step[1]))
        os.symlink(step[2], os.path.join(sb.base, step[1]))
    elif step[0] == "retarget":
        os.unlink(os.path.join(sb.base, step[1]))
        os.symlink(step[2], os.path.join(sb.base, step[1]))
    elif step[0] == "link->dir":
        os.unlink(os.path.join(sb.base, step[1]))
        os.makedirs(os.path.join(sb.base, step[1], "a"))
    elif step[0] == "base":
        sb.set_base(step[1])
    sb.cache = {}


def convert(fn):
    try:
        return ("returned", guarded(fn))
    except Hang:
        return ("hang", None)
    except RecursionError:
        return ("refused", "RecursionError")
    except Exception as e:
        return ("refused", type(e).__name__)


def check_history(api_idx, change_idx, path, tally):
    api = HISTORY_APIS[api_idx]
    fn, sep, drive, follow, as_bytes, how = api
    cname, cclass, prepare, change = HISTORY_CHANGES[change_idx]
    case = {"api": "history", "api_idx": api_idx, "change_idx": change_idx, "path": path}
    label = fn + ("" if follow is None else "[%s]" % ("follow" if follow else "nofollow"))
    arg = path.encode() if as_bytes else path
    with Sandbox(0) as sb:
        tally.tmp_root = sb.root
        apply_step(sb, prepare)
        base_name = BASE

        def make_call(common, fs):
            if fn == "resolve_path":
                return lambda: fs.resolve_path(arg, follow_link=follow)
            return lambda: getattr(common, fn)(arg)

        fs = make_fs(sb, []) if fn == "resolve_path" else None
        outs = [convert(make_call(sb.common, fs))]
        apply_step(sb, change)
        if change[0] == "base":
            base_name = change[1]
            sb.common.BASE_SB_PATH = base_name
            if fs is not None:
                if how == "same-instance":
                    fs.base_path = base_name
                else:
                    fs = make_fs(sb, [], base_name)       # same module state, another FileSystem
        outs.append(convert(make_call(sb.common, fs)))
        # reference: the same conversion from a module state that has never converted anything
        fresh_common = fresh_module("miasm.os_dep.common")
        fresh_common.BASE_SB_PATH = base_name
        fresh_fs = None
        if fn == "resolve_path":
            fresh_fs = fresh_module("miasm.os_dep.linux.environment").FileSystem(base_name, None)
        fresh = convert(make_call(fresh_common, fresh_fs))

        desc = "%s, %s(%r) converted twice" % (cname, label, arg)
        kinds = []
        for k, (what, res) in enumerate(outs):
            if what == "hang":
                tally.outcome(label, "history:hang")
                tally.add(violation("%s:history[%s]:call%d:hang" % (label, cclass, k + 1), desc + ": call %d hung" % (k + 1), case))
                kinds.append("hang")
                continue
            if what == "refused":
                kinds.append("refused")
                continue
            tally.results.add(res)
            # call 1 is judged in the world before the change, call 2 in the current one
            kind = sb.verdict(res, follow is False, fn != "resolve_path") if k == 1 else None
            kinds.append("inside" if kind is None else "escape:" + kind)
            if kind is not None:
                tally.add(violation(
                    "%s:history[%s]:call2:%s" % (label, cclass, kind),
                    desc + ": the second call returned %r, which the host resolves outside the current base %r "
                    "(first call: %r; a fresh module state gives %r)" % (res, sb.base, outs[0], fresh), case))
        if outs[1] != fresh and outs[1][0] != "hang":
            kinds.append("stale")
            tally.add(violation(
                "%s:history[%s]:call2:differs-from-fresh-state" % (label, cclass),
                desc + ": the second call gave %r, a fresh module state gives %r (first call: %r)" % (outs[1], fresh, outs[0]),
                case))
        tally.outcome(label, "history:" + "/".join(kinds[1:]))
        tally.outcome(label, "history-first-call:" + kinds[0])
    return outs[0] != outs[1]


def _history_shard(args):
    api_idx, change_idx, maxc = args
    tally = Tally()
    strings = history_strings(HISTORY_APIS[api_idx], maxc)
    changed = 0
    for s in strings:
        changed += 1 if check_history(api_idx, change_idx, s, tally) else 0
    sample = {"api": "history:" + HISTORY_APIS[api_idx][0], "change": HISTORY_CHANGES[change_idx][0], "path": strings[-1]}
    return {"n": tally.n, "nt": len(strings), "strings": len(strings), "outcomes": tally.outcomes, "vs": tally.vs,
            "per_sig": tally.per_sig, "sample": sample, "distinct_results": len(tally.results), "kind": "history",
            "answer_changed": changed}


# ------------------------------------------------------------------------------------------------
# shards

def _strings(kind, maxc, maxc_pt):
    if kind[-1] == "chain":
        if kind[0] == "windows":
            return windows_strings(CHAIN_COMPONENTS, maxc, kind[1], kind[2])
        return unix_strings(CHAIN_COMPONENTS, maxc)
    if kind[0] == "resolve":
        return unix_strings(COMPONENTS, maxc)
    if kind[0] == "resolve_pt":
        return unix_strings(PT_COMPONENTS, maxc_pt)
    if kind[0] == "unix":
        return unix_strings(COMPONENTS, maxc)
    if kind[0] == "windows":
        return windows_strings(COMPONENTS, maxc, kind[1], kind[2])
    raise ValueError(kind)


def _shard(args):
    kind, layout_idx, pt, maxc, maxc_pt, idx, nsh = args
    strings = _strings(kind, maxc, maxc_pt)
    mine = strings[idx::nsh]
    tally = Tally()
    nt = 0
    with Sandbox(layout_idx) as sb:
        tally.tmp_root = sb.root
        fs = make_fs(sb, pt) if kind[0].startswith("resolve") else None
        for s in mine:
            if kind[0].startswith("resolve"):
                check_resolve(sb, fs, pt, s, tally, layout_idx)
                nt += 4 if nontrivial(s) else 0
            elif kind[0] == "unix":
                check_unix(sb, s, tally, layout_idx)
                nt += 1 if nontrivial(s) else 0
            else:
                check_windows(sb, s, kind[1], kind[2], tally, layout_idx)
                nt += 1 if nontrivial(s[len(kind[2]):], kind[1]) else 0
    sample = None
    if mine:
        s = mine[-1]
        sample = {"api": kind[0], "layout": LAYOUTS[layout_idx][0], "passthrough": pt, "path": s}
    return {"n": tally.n, "nt": nt, "strings": len(mine), "outcomes": tally.outcomes, "vs": tally.vs,
            "per_sig": tally.per_sig, "sample": sample, "distinct_results": len(tally.results), "kind": kind[0]}


def run(ctx):
    # maxc: main lattice; maxc_main_pt: main lattice again with the passthrough set configured (it has no component
    # that can match the entry, so this only shows that configuring a passthrough loosens nothing); maxc_pt: second lattice
    # maxc_sib: main lattice under the SIBLING_LAYOUTS (both tiers; passthrough [] only, no passthrough lattice)
    if ctx.quick:
        maxc, maxc_main_pt, maxc_pt, nsh, nlay, maxc_sib, maxc_slash = 5, 4, 4, 8, N_LAYOUTS_QUICK, 3, 3
    else:
        maxc, maxc_main_pt, maxc_pt, nsh, nlay, maxc_sib, maxc_slash = 6, 6, 5, 16, SIBLING_LAYOUTS[0], 5, 5
    # maxc_slash: windows_to_sbpath turns '/' into '_', a slash-joined string is ONE component whatever its length
    nsh_small = max(1, nsh // 4)        # the pure string mappings are much cheaper per case
    shards = []
    for li in range(nlay):
        for pt in PASSTHROUGH:
            shards += [(("resolve",), li, pt, maxc_main_pt if pt else maxc, maxc_pt, i, nsh) for i in range(nsh)]
        shards += [(("resolve_pt",), li, PASSTHROUGH[1], maxc, maxc_pt, i, nsh) for i in range(nsh)]
        shards += [(("unix",), li, [], maxc, maxc_pt, i, nsh_small) for i in range(nsh_small)]
        for sep in ("\\", "/"):
            for drive in ("", "C:"):
                shards += [(("windows", sep, drive), li, [], maxc if sep == "\\" else maxc_slash, maxc_pt, i, nsh_small)
                           for i in range(nsh_small)]
    for li in SIBLING_LAYOUTS:
        shards += [(("resolve",), li, [], maxc_sib, maxc_pt, i, nsh_small) for i in range(nsh_small)]
        shards += [(("unix",), li, [], maxc_sib, maxc_pt, 0, 1)]
        for sep in ("\\", "/"):
            for drive in ("", "C:"):
                shards += [(("windows", sep, drive), li, [], min(maxc_sib, maxc if sep == "\\" else maxc_slash), maxc_pt, 0, 1)]
    # chain layouts: lattice over CHAIN_COMPONENTS; in quick the two longest chains only get the escaping ends
    lengths = CHAIN_LENGTHS_QUICK if ctx.quick else CHAIN_LENGTHS
    maxc_chain, maxc_loop = (2, 1) if ctx.quick else (3, 2)
    # thorough: three components around the small lengths and around MAXSYMLINKS = 40, two elsewhere (cost ~ length)
    deep = (1, 2, 8, 39, 40, 41, 42)
    chain_idx = [(CHAIN_LAYOUTS[(n, end)], maxc_chain if (ctx.quick or n in deep) else 2)
                 for n in lengths for end in CHAIN_ENDS
                 if not (ctx.quick and n > 100 and not end.startswith(("/", "..")))]
    chain_idx += [(CHAIN_LAYOUTS[("loop", n)], maxc_loop) for n in LOOP_LENGTHS]
    for li, mc in chain_idx:
        shards += [(("resolve", "chain"), li, [], mc, maxc_pt, 0, 1)]
        shards += [(("unix", "chain"), li, [], mc, maxc_pt, 0, 1)]
        shards += [(("windows", "\\", "", "chain"), li, [], mc, maxc_pt, 0, 1)]
    res = ctx.pmap(_shard, shards)
    maxc_hist = 2 if ctx.quick else 3
    # the two ways a base change reaches a FileSystem only differ for the base changes
    hres = ctx.pmap(_history_shard, [(ai, ci, maxc_hist) for ai in range(len(HISTORY_APIS))
                                     for ci in range(len(HISTORY_CHANGES))
                                     if HISTORY_CHANGES[ci][3][0] == "base" or HISTORY_APIS[ai][5] != "same-instance"])
    res = res + hres

    outcomes = {}
    per_sig = {}
    per_api = {}
    n = nt = 0
    all_vs = []
    for r in res:
        n += r["n"]
        nt += r["nt"]
        per_api[r["kind"]] = per_api.get(r["kind"], 0) + r["n"]
        for k, v in r["outcomes"].items():
            outcomes[k] = outcomes.get(k, 0) + v
        for k, v in r["per_sig"].items():
            per_sig[k] = per_sig.get(k, 0) + v
        all_vs += r["vs"]
    # smallest witness first: the runner prints the first record of every signature
    all_vs.sort(key=lambda v: (len(v["case"]["path"]), v["case"].get("layout", -1), v["case"]["path"],
                               v["case"].get("api_idx", 0), v["case"].get("change_idx", 0)))
    ctx.add_violations(all_vs)
    refused = sum(v for k, v in outcomes.items() if "|refused:" in k)
    escapes = sum(v for k, v in outcomes.items() if "escape:" in k)
    inside = sum(v for k, v in outcomes.items() if k.endswith("|inside"))
    allowed = sum(v for k, v in outcomes.items() if k.endswith("|passthrough-allowed"))
    samples = [r["sample"] for r in res if r["sample"]]
    samples = samples[:2] + samples[len(samples) // 2: len(samples) // 2 + 2] + samples[-2:]
    return {
        "evaluations": n,
        "distinct_nontrivial": nt,
        "samples": samples,
        "exhaustive": True,
        "bounds": {"max_components": maxc, "max_components_main_lattice_with_passthrough_configured": maxc_main_pt, "components": list(COMPONENTS), "max_components_passthrough_lattice": maxc_pt,
                   "passthrough_components": list(PT_COMPONENTS), "layouts": [l[0] for l in LAYOUTS[:nlay]],
                   "sibling_layouts": [LAYOUTS[i][0] for i in SIBLING_LAYOUTS], "max_components_sibling_layouts": maxc_sib,
                   "history_changes": [c[0] for c in HISTORY_CHANGES], "history_components": list(HISTORY_COMPONENTS),
                   "history_max_components": maxc_hist, "history_api_variants": len(HISTORY_APIS),
                   "chain_lengths": lengths, "chain_ends": CHAIN_ENDS, "loop_lengths": LOOP_LENGTHS,
                   "max_components_chain_layouts": maxc_chain, "chain_lengths_at_max_components": list(deep) if not ctx.quick else lengths,
                   "max_components_other_chain_lengths": 2, "max_components_loop_layouts": maxc_loop,
                   "chain_components": list(CHAIN_COMPONENTS), "call_budget_s": CALL_BUDGET_S,
                   "recursion_budget_frames": RECURSION_LIMIT,
                   "max_components_windows_slash_joined": maxc_slash,
                   "passthrough_sets": PASSTHROUGH, "string_types": ["str", "bytes (resolve_path only)"],
                   "windows_separators": ["\\", "/"], "windows_drive_prefix": ["", "C:"]},
        "distinct_strings_unix": len(unix_strings(COMPONENTS, maxc)),
        "distinct_strings_passthrough_lattice": len(unix_strings(PT_COMPONENTS, maxc_pt)),
        "distinct_strings_windows_per_variant": len(windows_strings(COMPONENTS, maxc, "\\", "")),
        "evaluations_per_api": per_api,
        "outcomes": dict(sorted(outcomes.items())),
        "distinct_outcomes": len(outcomes),
        "history_cases": sum(r["strings"] for r in hres),
        "history_cases_where_the_answer_changes": sum(r["answer_changed"] for r in hres),
        "calls_inside": inside,
        "calls_refused": refused,
        "calls_passthrough_allowed": allowed,
        "calls_escaped": escapes,
        "escapes_per_signature": dict(sorted(per_sig.items())),
        "distinct_results_max_per_shard": max(r["distinct_results"] for r in res),
    }


def replay(case):
    tally = Tally()
    if case["api"] == "history":
        check_history(case["api_idx"], case["change_idx"], case["path"], tally)
        return tally.vs
    li = case["layout"]
    with Sandbox(li) as sb:
        tally.tmp_root = sb.root
        if case["api"] == "resolve_path":
            pt = list(case.get("pt") or [])
            check_resolve(sb, make_fs(sb, pt), pt, case["path"], tally, li)
        elif case["api"] == "unix_to_sbpath":
            check_unix(sb, case["path"], tally, li)
        elif case["api"] == "windows_to_sbpath":
            check_windows(sb, case["path"], case["sep"], case["drive"], tally, li)
    return tally.vs
