"""C47 - emulated OS helper functions return the documented results.

Engine E2 (complete enumeration of finite argument lattices), oracle: a tiny Python reference of the
documented C / Windows semantics per function.

The real stub functions of miasm.os_dep.win_api_x86_32 and miasm.os_dep.linux_stdlib are called directly
(`winapi.kernel32_lstrlenA(jit)`) on a real x86-32 jitter with the Python backend: arguments are pushed
on the emulated stack per calling convention, then a fake return address; results are read back from
EAX/EDX and from emulated memory.  One long-lived jitter per worker process; registers, stack pointer
and a guarded data page are reset before every case, and the *whole* data page is compared with the
expected image afterwards (so a write outside the documented destination is seen too).

Families (every function listed in FUNCS; per-function case counts go to the evidence):
  int64    RtlLargeIntegerAdd/Subtract/ShiftRight, RtlEnlargedUnsignedMultiply, RtlExtendedIntegerMultiply
           over boundary 32-bit halves B^k, against 64-bit modular arithmetic
  memcmp   RtlCompareMemory (length of the common prefix), memcmp (sign)        all pairs of byte strings x n
  memcpy   memcpy (msvcrt, linux), RtlMoveMemory (kernel32, ntdll; overlapping too)   all strings x n (x offset)
  memset   memset (msvcrt, ntdll, linux)                                        all strings x fill byte x n
  strlen   lstrlenA/W, lstrlen, strlen (msvcrt, linux), wcslen, RtlInitAnsiString, RtlInitString,
           common.get/set_win_str_a/w round trip                                all strings
  strcpy   lstrcpyA/W, lstrcpy, _mbscpy, wcscpy, linux strcpy; lstrcpyn, wcsncpy x n
  strcat   lstrcatA/W, wcscat                                                   all pairs
  strcmp   lstrcmpA/W, wcscmp, linux strcmp/strncmp; lstrcmpiA/W, lstrcmpi, _wcsicmp, _wcsnicmp, StrCmpNIA
  strrchr  strrchr, wcsrchr                                                     all strings x searched char
  crc      RtlComputeCrc32 against zlib.crc32;  isprint over 0..255
"""
import itertools
import struct
import zlib

from mc.runner import violation

PROP = "C47"
LEVEL = "exploration"
ENGINE = "enum"
RULE = ("complete product per function: boundary 32-bit halves for the large-integer helpers; all (pairs of) strings up to "
        "the length bound over a small alphabet (with every length argument 0..bound+1) for the memory and string helpers; "
        "a case is one (function, argument tuple); non-trivial = carry/borrow/overflow across bit 32, a zero length, an empty "
        "string, operands sharing a non-empty common prefix, overlapping buffers, or a searched character that is absent/NUL")
LEVEL_TEXT = ("Bounded-exhaustive: each stub is executed on a real x86-32 jitter (Python backend) for every argument tuple of "
              "its lattice and its return registers and the complete guarded data page are compared with a few-line Python "
              "reference of the documented semantics. The stubs are length-generic Python code (loops/slices over the string), "
              "so all strings up to length 3-4 over 2-4 letters, every length argument around the string length and the five "
              "to nine boundary values per 32-bit half contain every relative arrangement (empty, equal, prefix, first/last "
              "difference, carry in/out) the code can distinguish.")
LEVEL_NOTE = ("Trusted: the in-place VmMngr / JitCore_x86 extension modules as plain substrate (get_mem/set_mem, register "
              "file); zlib.crc32. A harness-side wrapper on the jitter instance's func_ret_* records the value a stub hands "
              "back, and, when the register write of a negative value is rejected by the extension module, reports that "
              "once under its own signature and stores the two's complement instead, so that the comparison logic of every "
              "stub is still checked. Not covered: formatted output (sprintf family), MultiByteToWideChar family, "
              "StrToInt*, RtlHashUnicodeString; miasm.core.utils.get_caller_name (used for log records only) is replaced by an "
              "equivalent frame walk for speed; locale-dependent orderings (case-sensitive lstrcmp on mixed case), "
              "strings containing cp1252-undefined bytes or unpaired surrogates, the stack pointer after the call.")
TECHNIQUE = "complete enumeration of argument lattices through the real stubs on a real jitter against Python references"
ASSUMPTIONS = ["VmMngr.get_mem/set_mem and the JitCpu register file behave as plain storage",
               "RtlLargeIntegerShiftRight is a logical shift, RtlExtendedIntegerMultiply multiplies by a signed LONG (MSDN)",
               "lstrcmp/lstrcmpi on strings of ASCII letters of one case order them as strcmp does"]

DATA = 0x00100000
SIZE = 0x400
GUARD = 0xCC
A = DATA + 0x100
B = DATA + 0x200
D = DATA + 0x300
RET = 0x1337BEEF
SENT_EAX = 0xDEADBEEF
SENT_EDX = 0xFEEDFACE
M32 = 0xFFFFFFFF
M64 = (1 << 64) - 1
KEEP_PER_SIG = 2

NONBMP = "\U0001D11E"          # one letter = two UTF-16 code units
EACUTE = "\xe9"                # 0xE9 in cp1252 and latin-1, U+00E9
LOWZERO = "\u0100"             # a wide character whose low byte is zero (wide strings only)

BOUNDS = {
    "quick": {
        "halves": [0, 1, 0x7FFFFFFF, 0x80000000, 0xFFFFFFFF],
        "shifts": [0, 1, 31, 32, 33, 63],
        "mem_alpha": [0x61, 0x62], "mem_len": 3,
        "fill": [0x00, 0x61, 0xFF, 0x100, 0x161, 0xFFFFFF62],
        "a_alpha": ["a", "b"], "a_len": 3,
        "w_alpha": ["a", "b", LOWZERO, NONBMP], "w_len": 3,
        "ci_alpha": ["a", "A", "b"], "ci_len": 3,
        "crc_init": [0, 1, 0xFFFFFFFF, 0x12345678],
    },
    "thorough": {
        "halves": [0, 1, 2, 0x7FFFFFFE, 0x7FFFFFFF, 0x80000000, 0x80000001, 0xFFFFFFFE, 0xFFFFFFFF],
        "shifts": [0, 1, 2, 15, 16, 31, 32, 33, 47, 62, 63],
        "mem_alpha": [0x61, 0x62, 0x00], "mem_len": 4,
        "fill": [0x00, 0x61, 0xFF, 0x100, 0x161, 0xFFFFFF62],
        "a_alpha": ["a", "b", EACUTE], "a_len": 4,
        "w_alpha": ["a", "b", EACUTE, LOWZERO, NONBMP], "w_len": 3,
        "ci_alpha": ["a", "A", "b", "B"], "ci_len": 3,
        "crc_init": [0, 1, 0xFFFFFFFF, 0x12345678],
    },
}

# name -> (module, calling convention)
FUNCS = {
    "ntdll_RtlLargeIntegerAdd": ("win", "stdcall"), "ntdll_RtlLargeIntegerSubtract": ("win", "stdcall"),
    "ntdll_RtlLargeIntegerShiftRight": ("win", "stdcall"), "ntdll_RtlEnlargedUnsignedMultiply": ("win", "stdcall"),
    "ntdll_RtlExtendedIntegerMultiply": ("win", "stdcall"),
    "ntdll_RtlCompareMemory": ("win", "stdcall"), "msvcrt_memcmp": ("win", "cdecl"),
    "msvcrt_memcpy": ("win", "cdecl"), "xxx_memcpy": ("lin", "systemv"),
    "kernel32_RtlMoveMemory": ("win", "stdcall"), "ntdll_RtlMoveMemory": ("win", "stdcall"),
    "msvcrt_memset": ("win", "cdecl"), "ntdll_memset": ("win", "cdecl"), "xxx_memset": ("lin", "systemv"),
    "kernel32_lstrlenA": ("win", "stdcall"), "kernel32_lstrlen": ("win", "stdcall"), "msvcrt_strlen": ("win", "cdecl"),
    "xxx_strlen": ("lin", "systemv"), "kernel32_lstrlenW": ("win", "stdcall"), "msvcrt_wcslen": ("win", "cdecl"),
    "ntdll_RtlInitAnsiString": ("win", "stdcall"), "ntdll_RtlInitString": ("win", "stdcall"),
    "kernel32_lstrcpyA": ("win", "stdcall"), "kernel32_lstrcpy": ("win", "stdcall"), "msvcrt__mbscpy": ("win", "cdecl"),
    "xxx_strcpy": ("lin", "systemv"), "kernel32_lstrcpyW": ("win", "stdcall"), "msvcrt_wcscpy": ("win", "cdecl"),
    "kernel32_lstrcpyn": ("win", "stdcall"), "msvcrt_wcsncpy": ("win", "cdecl"),
    "kernel32_lstrcatA": ("win", "stdcall"), "kernel32_lstrcatW": ("win", "stdcall"), "msvcrt_wcscat": ("win", "cdecl"),
    "kernel32_lstrcmpA": ("win", "stdcall"), "kernel32_lstrcmpW": ("win", "stdcall"), "msvcrt_wcscmp": ("win", "cdecl"),
    "xxx_strcmp": ("lin", "systemv"), "xxx_strncmp": ("lin", "systemv"),
    "kernel32_lstrcmpiA": ("win", "stdcall"), "kernel32_lstrcmpi": ("win", "stdcall"), "kernel32_lstrcmpiW": ("win", "stdcall"),
    "msvcrt__wcsicmp": ("win", "cdecl"), "msvcrt__wcsnicmp": ("win", "cdecl"), "shlwapi_StrCmpNIA": ("win", "stdcall"),
    "msvcrt_strrchr": ("win", "cdecl"), "msvcrt_wcsrchr": ("win", "cdecl"),
    "ntdll_RtlComputeCrc32": ("win", "stdcall"), "xxx_isprint": ("lin", "systemv"),
}


# ------------------------------------------------------------------------------------------------
# harness: one jitter per process

class Outcome(object):
    __slots__ = ("eax", "edx", "pc", "mem", "exc", "regwrite", "ret_values")


class Harness(object):
    def __init__(self):
        from miasm.analysis.machine import Machine
        from miasm.core.locationdb import LocationDB
        from miasm.jitter.csts import PAGE_READ, PAGE_WRITE
        import miasm.os_dep.win_api_x86_32 as winapi
        import miasm.os_dep.linux_stdlib as stdlib
        import miasm.os_dep.common as common
        self.mods = {"win": winapi, "lin": stdlib}
        # miasm.core.utils.get_caller_name() builds inspect.stack() (milliseconds per call in a process with many
        # modules) only to name the calling function in a log record / a funcname argument the stubs ignore.
        # Same result, taken from the frame objects directly; nothing the stubs compute depends on it.
        import miasm.core.utils as utils
        import miasm.jitter.jitload as jitload
        for mod in (utils, jitload, common):
            if hasattr(mod, "get_caller_name"):
                mod.get_caller_name = fast_caller_name
        self.common = common
        jit = Machine("x86_32").jitter(LocationDB(), "python")
        jit.init_stack()
        jit.vm.add_memory_page(DATA, PAGE_READ | PAGE_WRITE, bytes([GUARD]) * SIZE, "c47 data")
        self.jit = jit
        self.sp0 = jit.cpu.ESP
        self.ret_values = None
        self.regwrite = None
        for name in ("func_ret_stdcall", "func_ret_cdecl", "func_ret_systemv"):
            setattr(jit, name, self._wrap(getattr(jit, name)))

    def _wrap(self, orig):
        def func_ret(ret_addr, v1=None, v2=None):
            self.ret_values = (v1, v2)
            try:
                return orig(ret_addr, v1, v2)
            except TypeError as e:
                neg = [v for v in (v1, v2) if isinstance(v, int) and -(1 << 31) <= v < 0]
                if "too big for" in str(e) and neg:
                    self.regwrite = "cpu register write of %d raised TypeError(%s)" % (neg[0], e)
                    fix = lambda v: v & M32 if isinstance(v, int) else v
                    return orig(ret_addr, fix(v1), fix(v2))
                raise
        return func_ret

    def fn(self, name):
        return getattr(self.mods[FUNCS[name][0]], name)

    def reset(self, image):
        jit = self.jit
        jit.vm.set_mem(DATA, bytes(image))
        jit.cpu.ESP = self.sp0
        jit.cpu.EAX = SENT_EAX
        jit.cpu.EDX = SENT_EDX
        jit.pc = 0
        jit.cpu.EIP = 0
        self.ret_values = None
        self.regwrite = None

    def call(self, name, args, image):
        jit = self.jit
        self.reset(image)
        for a in reversed(args):
            jit.push_uint32_t(a & M32)
        jit.push_uint32_t(RET)
        o = Outcome()
        o.exc = None
        try:
            self.fn(name)(jit)
        except Exception as e:              # a stub that raises did not compute its documented result
            o.exc = e
        o.eax, o.edx, o.pc = jit.cpu.EAX, jit.cpu.EDX, jit.pc
        o.mem = jit.vm.get_mem(DATA, SIZE)
        o.regwrite = self.regwrite
        o.ret_values = self.ret_values
        return o


def fast_caller_name(caller_num=0):
    import sys
    f = sys._getframe(1)
    for _ in range(caller_num):
        f = f.f_back
        if f is None:
            return "Bad caller num"
    return f.f_code.co_name


_H = None


def harness():
    global _H
    if _H is None:
        _H = Harness()
    return _H


# ------------------------------------------------------------------------------------------------
# small helpers

def blank():
    return bytearray([GUARD]) * SIZE


def put(image, addr, data):
    off = addr - DATA
    image[off:off + len(data)] = data
    return image


def enc_a(s):
    return s.encode("cp1252")


def enc_w(s):
    return s.encode("utf-16le")


def units(s):
    b = enc_w(s)
    return [struct.unpack_from("<H", b, i)[0] for i in range(0, len(b), 2)]


def sign(x):
    return (x > 0) - (x < 0)


def s32(x):
    return x - (1 << 32) if x & 0x80000000 else x


def strings(alpha, maxlen):
    out = []
    for n in range(maxlen + 1):
        for t in itertools.product(alpha, repeat=n):
            out.append("".join(t))
    return out


def bstrings(alpha, maxlen):
    out = []
    for n in range(maxlen + 1):
        for t in itertools.product(alpha, repeat=n):
            out.append(bytes(t))
    return out


def sclass(s):
    if any(ord(c) > 0xFFFF for c in s):
        return "non-bmp"
    if any(ord(c) > 0x7F for c in s):
        return "high-char"
    return "plain"


def nclass(n, length):
    return "n0" if n == 0 else ("n<len" if n < length else ("n=len" if n == length else "n>len"))


def common_prefix(x, y):
    i = 0
    while i < len(x) and i < len(y) and x[i] == y[i]:
        i += 1
    return i


def first_diff(got, want):
    for i in range(len(want)):
        if got[i] != want[i]:
            return i
    return None


def where(off):
    for name, base in (("D", D), ("B", B), ("A", A)):
        if off >= base - DATA:
            return "%s+%d" % (name, off - (base - DATA))
    return "DATA+%d" % off


class Case(object):
    """Collects the verdict of one executed case."""

    def __init__(self, name, skel, case, desc):
        self.name, self.skel, self.case, self.desc = name, skel, case, desc
        self.vs = []
        self.expected = []          # what the reference demanded (for the distinct-expected-results counter)

    def bad(self, kind, detail):
        self.vs.append(violation("%s:%s:%s" % (self.name, kind, self.skel), "%s: %s" % (self.desc, detail), self.case))

    def common(self, o, want_mem, mem_is_result=False):
        """Checks shared by every family. Returns False when the stub raised (nothing else to look at)."""
        if mem_is_result:
            self.expected.append(zlib.crc32(bytes(want_mem)))
        if o.regwrite:
            self.vs.append(violation("cpu-register-write:negative-value:TypeError",
                                     "%s: %s (the stub hands a negative Python int to func_ret_*)" % (self.desc, o.regwrite),
                                     self.case))
        if o.exc is not None:
            self.bad("raises:%s" % type(o.exc).__name__, "raised %r" % (o.exc,))
            return False
        if o.pc != RET:
            self.bad("bad-return-address", "pc = %#x after the call, expected %#x" % (o.pc, RET))
        if want_mem is not None and bytes(o.mem) != bytes(want_mem):
            i = first_diff(o.mem, want_mem)
            self.bad("wrong-memory", "memory differs at %s: got %r, expected %r" % (
                where(i), bytes(o.mem[i:i + 8]), bytes(want_mem[i:i + 8])))
        return True

    def ret(self, o, want, what="EAX"):
        self.expected.append(want & M32)
        got = o.eax if what == "EAX" else o.edx
        if got != want & M32:
            self.bad("wrong-return", "%s = %#x, expected %#x" % (what, got, want & M32))

    def ret_sign(self, o, want):
        self.expected.append(want)
        got = sign(s32(o.eax))
        if got != want:
            self.bad("wrong-sign", "returned %#x (sign %+d), expected sign %+d" % (o.eax, got, want))


# ------------------------------------------------------------------------------------------------
# families: each has  cases(bounds) -> iterator of (function name, params)   and   run(h, name, params) -> Case

# --- int64 -------------------------------------------------------------------------------------------
def int64_cases(b):
    H = b["halves"]
    for t in itertools.product(H, repeat=4):
        yield "ntdll_RtlLargeIntegerAdd", list(t)
        yield "ntdll_RtlLargeIntegerSubtract", list(t)
    for lo, hi in itertools.product(H, repeat=2):
        for c in b["shifts"]:
            yield "ntdll_RtlLargeIntegerShiftRight", [lo, hi, c]
    for x, y in itertools.product(H, repeat=2):
        yield "ntdll_RtlEnlargedUnsignedMultiply", [x, y]
    for t in itertools.product(H, repeat=3):
        yield "ntdll_RtlExtendedIntegerMultiply", list(t)


def int64_ref(name, p):
    """-> (expected 64-bit value, non-trivial?, operand skeleton)"""
    if name == "ntdll_RtlLargeIntegerAdd":
        a, c = p[0] | p[1] << 32, p[2] | p[3] << 32
        return (a + c) & M64, p[0] + p[2] > M32 or a + c > M64, "carry" if p[0] + p[2] > M32 else "no-carry"
    if name == "ntdll_RtlLargeIntegerSubtract":
        a, c = p[0] | p[1] << 32, p[2] | p[3] << 32
        return (a - c) & M64, p[0] < p[2] or a < c, "borrow" if p[0] < p[2] else "no-borrow"
    if name == "ntdll_RtlLargeIntegerShiftRight":
        a = p[0] | p[1] << 32
        return a >> p[2], p[2] > 0 and p[1] != 0, "count>=32" if p[2] >= 32 else ("count0" if p[2] == 0 else "count<32")
    if name == "ntdll_RtlEnlargedUnsignedMultiply":
        return (p[0] * p[1]) & M64, p[0] * p[1] > M32, "overflow32" if p[0] * p[1] > M32 else "fits32"
    if name == "ntdll_RtlExtendedIntegerMultiply":
        a = p[0] | p[1] << 32
        m = s32(p[2])
        return (a * m) & M64, m < 0 or a * abs(m) > M32, "multiplier-negative" if m < 0 else "multiplier-nonnegative"
    raise KeyError(name)


def int64_run(h, name, p):
    want, _, skel = int64_ref(name, p)
    c = Case(name, skel, {"fam": "int64", "fn": name, "p": p}, "%s(%s)" % (name, ", ".join("%#x" % x for x in p)))
    o = h.call(name, p, blank())
    if c.common(o, blank()):
        got = o.eax | o.edx << 32
        c.expected.append(want)
        if got != want:
            c.bad("wrong-result", "EDX:EAX = %#018x, expected %#018x" % (got, want))
    return c


def int64_nt(name, p):
    return int64_ref(name, p)[1]


# --- memcmp ------------------------------------------------------------------------------------------
def memcmp_cases(b):
    S = bstrings(b["mem_alpha"], b["mem_len"])
    for s1 in S:
        for s2 in S:
            for n in range(b["mem_len"] + 1):
                yield "ntdll_RtlCompareMemory", [s1, s2, n]
                yield "msvcrt_memcmp", [s1, s2, n]


def memcmp_run(h, name, p):
    s1, s2, n = p
    img = put(put(blank(), A, s1), B, s2)
    m1, m2 = bytes(img[A - DATA:A - DATA + n]), bytes(img[B - DATA:B - DATA + n])
    k = common_prefix(m1, m2)
    skel = "len0" if n == 0 else ("equal" if k == n else ("differ-at-0" if k == 0 else "differ-later"))
    c = Case(name, skel, {"fam": "memcmp", "fn": name, "p": p}, "%s(%r, %r, %d)" % (name, m1, m2, n))
    o = h.call(name, [A, B, n], img)
    if c.common(o, img):
        if name == "ntdll_RtlCompareMemory":
            c.ret(o, k)
        else:
            c.ret_sign(o, sign((m1 > m2) - (m1 < m2)))
    return c


def memcmp_nt(name, p):
    return p[2] == 0 or common_prefix(p[0], p[1]) > 0


# --- memcpy / memmove --------------------------------------------------------------------------------
MOVE_OFFSETS = [None, -2, -1, 0, 1, 2]


def memcpy_cases(b):
    S = bstrings(b["mem_alpha"], b["mem_len"])
    for s in S:
        for n in range(b["mem_len"] + 1):
            yield "msvcrt_memcpy", [s, n, None]
            yield "xxx_memcpy", [s, n, None]
            for off in MOVE_OFFSETS:
                yield "kernel32_RtlMoveMemory", [s, n, off]
                yield "ntdll_RtlMoveMemory", [s, n, off]


def memcpy_run(h, name, p):
    s, n, off = p
    img = put(blank(), A, s)
    dst = D if off is None else A + off
    want = bytearray(img)
    put(want, dst, bytes(img[A - DATA:A - DATA + n]))
    overlap = off is not None and abs(off) < n
    skel = ("len0" if n == 0 else "len>0") + (":overlap" if overlap else "")
    c = Case(name, skel, {"fam": "memcpy", "fn": name, "p": p},
             "%s(dst=%s, src=A=%r, %d)" % (name, "D" if off is None else "A%+d" % off, bytes(img[A - DATA:A - DATA + n]), n))
    o = h.call(name, [dst, A, n], img)
    if c.common(o, want, True) and "MoveMemory" not in name:
        c.ret(o, dst)
    return c


def memcpy_nt(name, p):
    return p[1] == 0 or (p[2] is not None and abs(p[2]) < p[1])


# --- memset ------------------------------------------------------------------------------------------
def memset_cases(b):
    S = bstrings(b["mem_alpha"], b["mem_len"])
    for s in S:
        for fill in b["fill"]:
            for n in range(b["mem_len"] + 1):
                for name in ("msvcrt_memset", "ntdll_memset", "xxx_memset"):
                    yield name, [s, fill, n]


def memset_run(h, name, p):
    s, fill, n = p
    img = put(blank(), A, s)
    want = put(bytearray(img), A, bytes([fill & 0xFF]) * n)
    skel = "c>0xff" if fill > 0xFF else ("len0" if n == 0 else "len>0")
    c = Case(name, skel, {"fam": "memset", "fn": name, "p": p}, "%s(A=%r, %#x, %d)" % (name, s, fill, n))
    o = h.call(name, [A, fill, n], img)
    if c.common(o, want, True):
        c.ret(o, A)
    return c


def memset_nt(name, p):
    return p[2] == 0 or p[1] > 0xFF or p[2] < len(p[0])


# --- strlen and friends -----------------------------------------------------------------------------
STRLEN_A = ["kernel32_lstrlenA", "kernel32_lstrlen", "msvcrt_strlen", "xxx_strlen"]
STRLEN_W = ["kernel32_lstrlenW", "msvcrt_wcslen"]
INITSTR = ["ntdll_RtlInitAnsiString", "ntdll_RtlInitString"]
CODEC = ["common.win_str_a", "common.win_str_w"]


def strlen_cases(b):
    for s in strings(b["a_alpha"], b["a_len"]):
        for name in STRLEN_A + INITSTR + CODEC[:1]:
            yield name, [s]
    for s in strings(b["w_alpha"], b["w_len"]):
        for name in STRLEN_W + CODEC[1:]:
            yield name, [s]


def strlen_run(h, name, p):
    s, = p
    wide = name in STRLEN_W or name == "common.win_str_w"
    raw = enc_w(s) + b"\0\0" if wide else enc_a(s) + b"\0"
    c = Case(name, sclass(s), {"fam": "strlen", "fn": name, "p": p}, "%s(%r)" % (name, s))
    if name in CODEC:
        # set_win_str_X writes the encoded string + terminator, get_win_str_X reads it back
        h.reset(blank())
        try:
            setter = h.common.set_win_str_w if wide else h.common.set_win_str_a
            getter = h.common.get_win_str_w if wide else h.common.get_win_str_a
            setter(h.jit, A, s)
            got_mem = h.jit.vm.get_mem(DATA, SIZE)
            back = getter(h.jit, A)
        except Exception as e:
            c.bad("raises:%s" % type(e).__name__, "raised %r" % (e,))
            return c
        want = put(blank(), A, raw)
        c.expected.append(zlib.crc32(bytes(want)))
        if bytes(got_mem) != bytes(want):
            i = first_diff(got_mem, want)
            c.bad("wrong-memory", "set_win_str wrote %r at %s, expected %r" % (bytes(got_mem[i:i + 8]), where(i), bytes(want[i:i + 8])))
        if back != s:
            c.bad("wrong-return", "get_win_str read back %r" % (back,))
        return c
    img = put(blank(), A, raw)
    if name in INITSTR:
        n = len(enc_a(s))
        want = put(bytearray(img), D, struct.pack("<HHI", n, n + 1, A))
        o = h.call(name, [D, A], img)
        c.common(o, want, True)
        return c
    o = h.call(name, [A], img)
    if c.common(o, img):
        c.ret(o, len(raw) // 2 - 1 if wide else len(raw) - 1)
    return c


def strlen_nt(name, p):
    return p[0] == "" or sclass(p[0]) != "plain"


# --- strcpy / strncpy --------------------------------------------------------------------------------
STRCPY_A = ["kernel32_lstrcpyA", "kernel32_lstrcpy", "msvcrt__mbscpy", "xxx_strcpy"]
STRCPY_W = ["kernel32_lstrcpyW", "msvcrt_wcscpy"]


def strcpy_cases(b):
    for s in strings(b["a_alpha"], b["a_len"]):
        for name in STRCPY_A:
            yield name, [s, None]
        for n in range(0, b["a_len"] + 2):
            yield "kernel32_lstrcpyn", [s, n]
    for s in strings(b["w_alpha"], b["w_len"]):
        for name in STRCPY_W:
            yield name, [s, None]
        for n in range(0, b["w_len"] + 3):
            yield "msvcrt_wcsncpy", [s, n]


def strcpy_run(h, name, p):
    s, n = p
    wide = name in STRCPY_W or name == "msvcrt_wcsncpy"
    raw = enc_w(s) + b"\0\0" if wide else enc_a(s) + b"\0"
    img = put(blank(), A, raw)
    nunits = len(raw) // 2 - 1 if wide else len(raw) - 1
    skel = sclass(s) + ("" if n is None else ":" + nclass(n, nunits))
    c = Case(name, skel, {"fam": "strcpy", "fn": name, "p": p},
             "%s(D, %r%s)" % (name, s, "" if n is None else ", %d" % n))
    if name == "kernel32_lstrcpyn":
        if n == 0:
            return None                 # iMaxLength = 0: nothing documented; skipped and counted
        out = enc_a(s)[:n - 1] + b"\0"
        args = [D, A, n]
    elif name == "msvcrt_wcsncpy":
        u = units(s)[:n]
        u = u + [0] * (n - len(u))
        out = b"".join(struct.pack("<H", x) for x in u)
        args = [D, A, n]
    else:
        out = raw
        args = [D, A]
    want = put(bytearray(img), D, out)
    o = h.call(name, args, img)
    if c.common(o, want, True):
        c.ret(o, D)
    return c


def strcpy_nt(name, p):
    return p[0] == "" or sclass(p[0]) != "plain" or (p[1] is not None and p[1] <= len(p[0]))


# --- strcat ------------------------------------------------------------------------------------------
def strcat_cases(b):
    SA = strings(b["a_alpha"], b["a_len"])
    SW = strings(b["w_alpha"], b["w_len"])
    for s1 in SA:
        for s2 in SA:
            yield "kernel32_lstrcatA", [s1, s2]
    for s1 in SW:
        for s2 in SW:
            yield "kernel32_lstrcatW", [s1, s2]
            yield "msvcrt_wcscat", [s1, s2]


def strcat_run(h, name, p):
    s1, s2 = p
    wide = name != "kernel32_lstrcatA"
    enc, nul = (enc_w, b"\0\0") if wide else (enc_a, b"\0")
    img = put(put(blank(), D, enc(s1) + nul), A, enc(s2) + nul)
    want = put(bytearray(img), D, enc(s1) + enc(s2) + nul)
    c = Case(name, "%s,%s" % (sclass(s1), sclass(s2)), {"fam": "strcat", "fn": name, "p": p}, "%s(%r, %r)" % (name, s1, s2))
    o = h.call(name, [D, A], img)
    if c.common(o, want, True):
        c.ret(o, D)
    return c


def strcat_nt(name, p):
    return p[0] == "" or p[1] == "" or sclass(p[0] + p[1]) != "plain"


# --- strcmp ------------------------------------------------------------------------------------------
# name -> (wide, case-insensitive, takes n, alphabet key)
STRCMP = {
    "kernel32_lstrcmpA": (False, False, False, "cs"), "kernel32_lstrcmpW": (True, False, False, "cs"),
    "msvcrt_wcscmp": (True, False, False, "w"), "xxx_strcmp": (False, False, False, "a"),
    "xxx_strncmp": (False, False, True, "a"),
    "kernel32_lstrcmpiA": (False, True, False, "ci"), "kernel32_lstrcmpi": (False, True, False, "ci"),
    "kernel32_lstrcmpiW": (True, True, False, "ci"), "msvcrt__wcsicmp": (True, True, False, "ci"),
    "msvcrt__wcsnicmp": (True, True, True, "ci"), "shlwapi_StrCmpNIA": (False, True, True, "ci"),
}


def strcmp_cases(b):
    sets = {
        "cs": strings(["a", "b"], b["ci_len"]),            # one case, ASCII: linguistic order == strcmp order
        "a": strings(b["a_alpha"], b["a_len"]),
        "w": strings(b["w_alpha"], b["w_len"]),
        "ci": strings(b["ci_alpha"], b["ci_len"]),
    }
    maxlen = {"cs": b["ci_len"], "a": b["a_len"], "w": b["w_len"], "ci": b["ci_len"]}
    for name in sorted(STRCMP):
        wide, ci, has_n, key = STRCMP[name]
        for s1 in sets[key]:
            for s2 in sets[key]:
                if has_n:
                    for n in range(maxlen[key] + 2):
                        yield name, [s1, s2, n]
                else:
                    yield name, [s1, s2, None]


def fold(s):
    return "".join(chr(ord(ch) + 32) if "A" <= ch <= "Z" else ch for ch in s)


def strcmp_run(h, name, p):
    s1, s2, n = p
    wide, ci, has_n, _ = STRCMP[name]
    enc, nul = (enc_w, b"\0\0") if wide else (enc_a, b"\0")
    img = put(put(blank(), A, enc(s1) + nul), B, enc(s2) + nul)
    k1, k2 = (fold(s1), fold(s2)) if ci else (s1, s2)
    k1, k2 = (units(k1), units(k2)) if wide else (list(enc_a(k1)), list(enc_a(k2)))
    if n is not None:
        k1, k2 = k1[:n], k2[:n]
    want = (k1 > k2) - (k1 < k2)
    rel = {-1: "lt", 0: "eq", 1: "gt"}[want]
    cls = sorted(set([sclass(s1), sclass(s2)]) - set(["plain"])) or ["plain"]
    skel = rel + ":" + "+".join(cls) + ("" if n is None else ":" + nclass(n, min(len(s1), len(s2))))
    c = Case(name, skel, {"fam": "strcmp", "fn": name, "p": p},
             "%s(%r, %r%s)" % (name, s1, s2, "" if n is None else ", %d" % n))
    o = h.call(name, [A, B] + ([n] if n is not None else []), img)
    if c.common(o, img):
        c.ret_sign(o, want)
    return c


def strcmp_nt(name, p):
    return p[0] == "" or p[1] == "" or common_prefix(p[0], p[1]) > 0 or p[2] == 0


# --- strrchr -----------------------------------------------------------------------------------------
def strrchr_cases(b):
    for s in strings(b["a_alpha"], b["a_len"]):
        for ch in [enc_a(x)[0] for x in b["a_alpha"]] + [0, 0x7A]:
            yield "msvcrt_strrchr", [s, ch]
    for s in strings(b["w_alpha"], b["w_len"]):
        for ch in sorted(set(u for x in b["w_alpha"] for u in units(x))) + [0, 0x7A]:
            yield "msvcrt_wcsrchr", [s, ch]


def strrchr_run(h, name, p):
    s, ch = p
    wide = name == "msvcrt_wcsrchr"
    if wide:
        seq, raw, width = units(s) + [0], enc_w(s) + b"\0\0", 2
    else:
        seq, raw, width = list(enc_a(s)) + [0], enc_a(s) + b"\0", 1
    idx = max([i for i, x in enumerate(seq) if x == ch] or [-1])
    want = A + idx * width if idx >= 0 else 0
    if ch >= 0x80:
        cc = "c>0x7f" if ch < 0x100 else "c>0xff"
    elif ch == 0:
        cc = "c-nul"
    elif idx < 0:
        cc = "c-absent"
    else:
        cc = "c-present" + (":non-bmp-string" if sclass(s) == "non-bmp" else "")
    img = put(blank(), A, raw)
    c = Case(name, cc, {"fam": "strrchr", "fn": name, "p": p}, "%s(A=%r, %#x)" % (name, s, ch))
    o = h.call(name, [A, ch], img)
    if c.common(o, img):
        c.ret(o, want)
    return c


def strrchr_nt(name, p):
    return True


# --- crc / isprint -----------------------------------------------------------------------------------
def misc_cases(b):
    for s in bstrings(b["mem_alpha"], b["mem_len"]):
        for init in b["crc_init"]:
            for n in range(len(s) + 1):
                yield "ntdll_RtlComputeCrc32", [s, init, n]
    for ch in range(256):
        yield "xxx_isprint", [ch]


def misc_run(h, name, p):
    if name == "xxx_isprint":
        ch, = p
        c = Case(name, "printable" if 0x20 <= ch < 0x7F else "not-printable", {"fam": "misc", "fn": name, "p": p},
                 "isprint(%#x)" % ch)
        o = h.call(name, [ch], blank())
        c.expected.append(0x20 <= ch < 0x7F)
        if c.common(o, blank()):
            if (o.eax != 0) != (0x20 <= ch < 0x7F):
                c.bad("wrong-return", "EAX = %#x" % o.eax)
        return c
    s, init, n = p
    img = put(blank(), A, s)
    c = Case(name, ("len0" if n == 0 else "len>0") + (":init0" if init == 0 else ":init-nonzero"),
             {"fam": "misc", "fn": name, "p": p}, "RtlComputeCrc32(%#x, %r, %d)" % (init, s[:n], n))
    o = h.call(name, [init, A, n], img)
    if c.common(o, img):
        c.ret(o, zlib.crc32(s[:n], init))
    return c


def misc_nt(name, p):
    return name == "xxx_isprint" and p[0] in (0x1F, 0x20, 0x7E, 0x7F, 0xFF, 0) or (name != "xxx_isprint" and (p[2] == 0 or p[1] != 0))


FAMILIES = {
    "int64": (int64_cases, int64_run, int64_nt),
    "memcmp": (memcmp_cases, memcmp_run, memcmp_nt),
    "memcpy": (memcpy_cases, memcpy_run, memcpy_nt),
    "memset": (memset_cases, memset_run, memset_nt),
    "strlen": (strlen_cases, strlen_run, strlen_nt),
    "strcpy": (strcpy_cases, strcpy_run, strcpy_nt),
    "strcat": (strcat_cases, strcat_run, strcat_nt),
    "strcmp": (strcmp_cases, strcmp_run, strcmp_nt),
    "strrchr": (strrchr_cases, strrchr_run, strrchr_nt),
    "misc": (misc_cases, misc_run, misc_nt),
}
FAMILY_ORDER = ["int64", "memcmp", "memcpy", "memset", "strlen", "strcpy", "strcat", "strcmp", "strrchr", "misc"]


# ------------------------------------------------------------------------------------------------
# shards

def _shard(args):
    tier, fam, idx, nsh = args
    cases, run_one, nt_of = FAMILIES[fam]
    h = harness()
    per_fn = {}
    per_sig = {}
    outcomes = {}
    expected = {}
    vs = []
    n = nt = skipped = 0
    sample = None
    for i, (name, p) in enumerate(cases(BOUNDS[tier])):
        if i % nsh != idx:
            continue
        c = run_one(h, name, p)
        if c is None:
            skipped += 1
            continue
        n += 1
        per_fn[name] = per_fn.get(name, 0) + 1
        expected.setdefault(name, set()).add(tuple(c.expected))
        if nt_of(name, p):
            nt += 1
        key = "%s|%s" % (name, "ok" if not c.vs else ",".join(sorted(set(v["sig"].split(":")[1] for v in c.vs))))
        outcomes[key] = outcomes.get(key, 0) + 1
        for v in c.vs:
            k = per_sig.get(v["sig"], 0)
            per_sig[v["sig"]] = k + 1
            if k < KEEP_PER_SIG:
                vs.append(v)
        sample = {"fn": name, "params": p}
    return {"n": n, "nt": nt, "skipped": skipped, "per_fn": per_fn, "per_sig": per_sig, "outcomes": outcomes,
            "vs": vs, "sample": sample, "expected": expected}


def _activate():
    # the stubs hand negative results to the C register file (compat_py23.h): use the extensions rebuilt
    # from the working tree, not the in-place build products
    from mc import native
    native.activate(["JitCore_x86"])


def run(ctx):
    _activate()
    tier = "quick" if ctx.quick else "thorough"
    nsh = 16 if ctx.quick else 64
    shards = []
    for fam in FAMILY_ORDER:
        k = nsh if fam in ("strcmp", "strcat", "memcmp", "int64") else max(2, nsh // 8)
        shards += [(tier, fam, i, k) for i in range(k)]
    harness()           # built once here: the forked workers inherit the imported modules and the jitter
    res = ctx.pmap(_shard, shards)
    all_vs = []
    expected = {}
    per_fn = {}
    per_sig = {}
    outcomes = {}
    n = nt = skipped = 0
    for r in res:
        n += r["n"]
        nt += r["nt"]
        skipped += r["skipped"]
        for src, dst in ((r["per_fn"], per_fn), (r["per_sig"], per_sig), (r["outcomes"], outcomes)):
            for k, v in src.items():
                dst[k] = dst.get(k, 0) + v
        for k, v in r["expected"].items():
            expected.setdefault(k, set()).update(v)
        all_vs += r["vs"]
    # smallest witness first: the runner prints the first record of every signature
    all_vs.sort(key=lambda v: (len(repr(v["case"]["p"])), repr(v["case"]["p"])))
    ctx.add_violations(all_vs)
    missing = sorted(set(FUNCS) - set(per_fn))
    if missing:
        raise RuntimeError("functions never executed: %r" % missing)
    failing_cases = sum(v for k, v in outcomes.items() if not k.endswith("|ok"))
    samples = [r["sample"] for r in res if r["sample"]]
    samples = samples[::max(1, len(samples) // 6)][:6]
    return {
        "evaluations": n,
        "distinct_nontrivial": nt,
        "samples": samples,
        "exhaustive": True,
        "bounds": BOUNDS[tier],
        "functions_covered": len(per_fn),
        "cases_per_function": dict(sorted(per_fn.items())),
        "distinct_expected_results_per_function": dict(sorted((k, len(v)) for k, v in expected.items())),
        "cases_skipped_undocumented": skipped,
        "cases_ok": n - failing_cases,
        "cases_failing": failing_cases,
        "outcomes": dict(sorted(outcomes.items())),
        "distinct_outcomes": len(outcomes),
        "failures_per_signature": dict(sorted(per_sig.items())),
    }


def replay(case):
    _activate()
    fam = case["fam"]
    p = case["p"]
    c = FAMILIES[fam][1](harness(), case["fn"], p)
    return c.vs if c is not None else []
