"""C48 - emulated allocators return fresh, non-overlapping mappings.

Engine E1 (explicit-state BFS over request histories on the real allocators), two systems:

  "win"    miasm.os_dep.common.heap (alloc / vm_alloc / get_size) and the win_api_x86_32 entry points
           kernel32_HeapAlloc, kernel32_VirtualAlloc (stdcall) and msvcrt_malloc (cdecl), driven through a real
           x86_32 jitter (python backend) with the arguments and a return address pushed on its stack;
  "linux"  LinuxEnvironment_x86_32.mmap (non-fixed and MAP_FIXED, hint 0 / free / occupied / adjacent / straddling)
           and .brk (query, grow, shrink, same; and below / at the start of / inside / at the end of / past a foreign
           mapping that an earlier MAP_FIXED or hinted mmap put 1..3 pages above the break) on a real VmMngr; MAP_FIXED additionally at a second free address two pages
           above the first so that one-page holes between mappings exist.

Reference model: the set of live allocations [addr, addr+size) (plus the pages that existed before the first
request, e.g. the stack, plus the brk region). Oracle for every request: the returned region is covered by the VM's
page list, is disjoint from every other live allocation and does not start at the address of another live
allocation (zero-sized ones included). MAP_FIXED is the one request that is *meant* to replace what it covers: there
the model cuts the covered part out of earlier allocations and only demands `returned == requested` and `covered by pages`. A
VirtualAlloc whose hint is the base of a live allocation is a re-commit (returns the hint, allocates nothing).
A brk request either moves the break (then the whole data segment [initial break, new break) must be covered by
pages and must not run over a live allocation) or is refused the Linux way (old break returned), which is only
legitimate when a live allocation is in the way. In every state the VM's non-empty pages must be pairwise disjoint
and every live allocation, the data segment included, still mapped.

The C VmMngr is only the container of mappings here: pages are read back from its page dump, never through its
lookup functions.
"""
import os

from mc import bfs
from mc.tally import TallyCtx

PROP = "C48"
LEVEL = "model_checking"
ENGINE = "bfs"
RULE = ("BFS over request histories (sizes 0, 1, 0xFFF, 0x1000, 0x1001; every hint class) on the real heap / win_api / "
        "LinuxEnvironment allocators; a state is distinct by (allocator cursors, VM page list, live allocations); states in which "
        "two live allocations already collide are not expanded")
LEVEL_TEXT = ("Explicit-state search of every request history up to the depth bound on the real allocator objects with an interval-set "
              "model of live allocations in lock step: every returned region is checked against the VM's page list and against every "
              "other live allocation, with zero-sized, sub-page, exact-page and page-crossing sizes and null / free / occupied / "
              "adjacent / straddling hint addresses.")
LEVEL_NOTE = ("Trusted: the installed VmMngr extension as a container of (address, size) pages (its lookup code is not used), the "
              "jitter's stdcall/cdecl argument passing. Not covered: GlobalAlloc/LocalAlloc/new/realloc/calloc (same heap.alloc path), "
              "ZwAllocateVirtualMemory, ExAllocatePool*, file-backed mmap, brk below its initial value, 32-bit wrap-around of the bump pointer, other architectures' LinuxEnvironment subclasses (same code).")
TECHNIQUE = "explicit-state BFS over allocation request histories on the real allocators against a live-interval-set model"
ASSUMPTIONS = ["allocator behaviour depends on sizes only through the page-size classes {0, 1, 0xFFF, 0x1000, 0x1001}",
               "the installed VmMngr extension records pages faithfully (container only)"]

SIZES = [0, 1, 0xFFF, 0x1000, 0x1001]
SEEDS = ["win", "linux", "win-align16"]   # win-align16: the same entry points on a heap configured with align = 0x10
RET = 0x1337
WIN_FREE_HINT = 0x30000000
LIN_FREE_HINT = 0x76000000
MAP_FIXED = 0x10
MAP_ANON_PRIV = 0x22
DEPTH = {"quick": {"win": 4, "linux": 3, "win-align16": 3}, "thorough": {"win": 6, "linux": 4, "win-align16": 5}}

_TIER = {"tier": "quick"}
_JIT = []
_JIT_NATIVE = []


class State(object):
    pass


def _ensure_native():
    """A scratch checkout (VERIF_REPO) has no compiled extensions: resolve them from /repo, python sources stay
    those of the checkout under test."""
    if _JIT_NATIVE:
        return
    _JIT_NATIVE.append(1)
    import glob
    import miasm.jitter
    import miasm.jitter.arch
    d = os.path.dirname(miasm.jitter.__file__)
    if not glob.glob(os.path.join(d, "VmMngr*.so")) and "/repo/miasm/jitter" not in miasm.jitter.__path__:
        miasm.jitter.__path__.append("/repo/miasm/jitter")
        miasm.jitter.arch.__path__.append("/repo/miasm/jitter/arch")


def _jitter():
    if not _JIT:
        _ensure_native()
        import logging
        from miasm.analysis.machine import Machine
        from miasm.core.locationdb import LocationDB
        import miasm.os_dep.win_api_x86_32 as winapi
        winapi.log.setLevel(logging.ERROR)
        _JIT.append(Machine("x86_32").jitter(LocationDB(), "python"))
    return _JIT[0]


def _pages(st):
    """(addr, size) of every page the VM lists (its dump shows pages that share a base address, the dict of
    get_all_memory() cannot). Cached per state: pages only change inside apply(), which drops the cache."""
    if st.pages is not None:
        return st.pages
    out = []
    for line in str(st.vm).splitlines():
        f = line.split()
        if len(f) >= 2 and f[0].startswith("0x") and f[1].startswith("0x"):
            out.append((int(f[0], 16), int(f[1], 16)))
    st.pages = sorted(out)
    return st.pages


def _covered(pages, a, n):
    """is [a, a+n) covered by the union of pages"""
    cur = a
    end = a + n
    for (s, sz) in pages:
        if sz and s <= cur < s + sz:
            cur = s + sz
            if cur >= end:
                return True
    return cur >= end


def make(seed):
    st = State()
    st.seed = seed
    st.n = 0
    st.broken = False
    st.last = ("init",)
    st.live = []          # dicts addr, size, api
    st.pages = None
    if seed.startswith("win"):
        jit = _jitter()
        from miasm.os_dep.common import heap
        import miasm.os_dep.win_api_x86_32 as winapi
        jit.vm.reset_memory_page_pool()
        jit.init_stack()
        winapi.winobjs.heap = heap()
        if seed == "win-align16":
            winapi.winobjs.heap.align = 0x10
        winapi.winobjs.allocated_pages = {}
        st.jit, st.vm, st.winapi, st.heap = jit, jit.vm, winapi, winapi.winobjs.heap
    else:
        _ensure_native()
        from miasm.jitter.VmMngr import Vm
        from miasm.os_dep.linux.environment import LinuxEnvironment_x86_32
        st.vm = Vm()
        st.env = LinuxEnvironment_x86_32()
        st.brk_base = st.brk_cur = st.env.brk_current
    st.preexisting = [dict(addr=a, size=s, api="preexisting") for (a, s) in _pages(st)]
    return st


def _szc(n):
    return "size0" if n == 0 else "nonzero"


def _others(st):
    out = list(st.preexisting) + list(st.live)
    if st.seed == "linux" and st.brk_cur > st.brk_base:
        out.append(dict(addr=st.brk_base, size=st.brk_cur - st.brk_base, api="brk"))
    return out


def _family(api):
    """allocator whose cursor decided the address: every Windows entry point bumps winobjs.heap; Linux mmap searches
    the VM page list"""
    return "mmap-nonfixed" if api.startswith("mmap") else "win-bump-heap"


def _check_new(st, api, addr, n, probs):
    """a request of n bytes returned addr as a NEW allocation"""
    pages = _pages(st)
    fam = _family(api)
    if n and not _covered(pages, addr, n):
        st.broken = True
        probs.append(("%s:not-mapped:%s" % (fam, "page-multiple" if n % 0x1000 == 0 else "unaligned-size"),
                      "%s(0x%x) returned 0x%x but [0x%x, 0x%x) is not covered by the pages %s" % (
                          api, n, addr, addr, addr + n, [(hex(a), hex(s)) for a, s in pages])))
    for o in _others(st):
        if o["addr"] == addr:
            st.broken = True
            probs.append(("%s:same-address-as-live:prev-%s" % (fam, _szc(o["size"])),
                          "%s(0x%x) returned 0x%x, the address of the live %s allocation of 0x%x bytes" % (api, n, addr, o["api"], o["size"])))
        elif n and o["size"] and addr < o["addr"] + o["size"] and o["addr"] < addr + n:
            st.broken = True
            probs.append(("%s:overlaps-live:prev-%s" % (fam, o["api"].split(":")[0]),
                          "%s(0x%x) returned [0x%x, 0x%x) overlapping the live %s allocation [0x%x, 0x%x)" % (
                              api, n, addr, addr + n, o["api"], o["addr"], o["addr"] + o["size"])))
    st.live.append(dict(addr=addr, size=n, api=api))


def _stdcall(st, fn, args):
    jit = st.jit
    for a in reversed(args):
        jit.push_uint32_t(a)
    jit.push_uint32_t(RET)
    fn(jit)
    if jit.pc != RET:
        raise RuntimeError("did not return to the pushed return address: pc=0x%x" % jit.pc)
    return jit.cpu.EAX


def _last_live(st, minsize):
    for o in reversed(st.live):
        if o["size"] >= minsize:
            return o
    return None


def _win_hint(st, hint, n):
    if hint == "null":
        return 0
    if hint == "free":
        return WIN_FREE_HINT
    if hint == "base":
        o = _last_live(st, max(n, 1))
        return None if o is None else o["addr"]
    if hint == "inside":
        o = _last_live(st, 2)
        return None if o is None else o["addr"] + 1


def _lin_hint(st, hint):
    if hint == "null":
        return 0
    if hint == "free":
        return LIN_FREE_HINT
    if hint == "free2":
        return LIN_FREE_HINT + 0x2000   # leaves a one-page hole above a small mapping at the first hint
    if hint.startswith("brk+"):
        return st.brk_cur + int(hint[4]) * 0x1000   # a foreign mapping 1..3 pages above the current break
    o = _last_live(st, 1)
    if o is None:
        return None
    return {"occ": o["addr"], "adj": o["addr"] + o["size"], "last": o["addr"] + o["size"] - 1}[hint]


SIZES_LINUX_QUICK = [0, 1, 0x1000, 0x1001]   # quick tier: no 0xFFF for mmap (kept for the Windows allocators)
BRK_HINTS = ("brk+1p", "brk+2p", "brk+3p")  # quick tier: non-fixed only at brk+2p
BRK_HINT_SIZES = (1, 0x1000)
BRK_TARGETS = ("f-below", "f-start", "f-inside", "f-end", "f-past")


def _foreign_above(st):
    """lowest live non-empty allocation at or above the break and close to it"""
    best = None
    for o in st.live:
        if o["size"] and st.brk_cur <= o["addr"] < st.brk_cur + 0x10000 and (best is None or o["addr"] < best["addr"]):
            best = o
    return best


def _brk_target(st, d):
    """requested break for a brk event, None when the event is not enabled"""
    if d == "same":
        return st.brk_cur
    if isinstance(d, int):
        new = st.brk_cur + d
    else:
        f = _foreign_above(st)
        if f is None:
            return None
        new = {"f-below": f["addr"] - 0x800, "f-start": f["addr"], "f-inside": f["addr"] + 1,
               "f-end": f["addr"] + f["size"], "f-past": f["addr"] + f["size"] + 0x10}[d]
    return new if new >= st.brk_base else None


def events(st):
    if st.broken or st.n >= DEPTH[_TIER["tier"]][st.seed] or invariant(st):
        return []
    evs = []
    quick = _TIER["tier"] == "quick"
    if st.seed.startswith("win"):
        for api in ("heap.alloc", "heap.vm_alloc", "HeapAlloc", "malloc"):
            for n in SIZES:
                evs.append((api, n))
        for hint in ("null", "free", "base", "inside"):
            for n in SIZES:
                if _win_hint(st, hint, n) is not None:
                    evs.append(("VirtualAlloc", hint, n))
    else:
        for fixed in (0, 1):
            for hint in (("null", "free", "occ", "adj") if not fixed else ("free", "free2", "occ", "adj", "last")):
                if _lin_hint(st, hint) is None:
                    continue
                for n in (SIZES_LINUX_QUICK if quick else SIZES):
                    evs.append(("mmap", hint, n, fixed))
        for fixed in (1, 0):
            for hint in (BRK_HINTS if fixed or not quick else BRK_HINTS[1:2]):
                for n in BRK_HINT_SIZES:
                    evs.append(("mmap", hint, n, fixed))
        evs.append(("brk", "query"))
        for d in ("same", 1, 0x1000, 0x1001, -0x1000) + BRK_TARGETS:
            if _brk_target(st, d) is not None:
                evs.append(("brk", d))
    return evs


def apply(st, ev):
    probs = []
    st.n += 1
    api = ev[0]
    st.last = (api,)
    st.pages = None
    try:
        probs = _apply(st, ev, api, probs)
    finally:
        st.pages = None
    return probs


def _apply(st, ev, api, probs):
    try:
        if api in ("heap.alloc", "heap.vm_alloc", "HeapAlloc", "malloc"):
            n = ev[1]
            if api == "heap.alloc":
                addr = st.heap.alloc(st.jit, n)
            elif api == "heap.vm_alloc":
                addr = st.heap.vm_alloc(st.vm, n)
            elif api == "HeapAlloc":
                addr = _stdcall(st, st.winapi.kernel32_HeapAlloc, [0x11223344, 0, n])
            else:
                addr = _stdcall(st, st.winapi.msvcrt_malloc, [n])
            _check_new(st, api, addr, n, probs)
            if n and not st.broken:
                got = st.heap.get_size(st.vm, addr)
                if got < n:
                    probs.append(("heap.get_size:smaller-than-request", "get_size(0x%x) = 0x%x after %s(0x%x)" % (addr, got, api, n)))
            st.last = (api, _szc(n), "broken" if st.broken else "fresh")
        elif api == "VirtualAlloc":
            _, hint, n = ev
            h = _win_hint(st, hint, n)
            addr = _stdcall(st, st.winapi.kernel32_VirtualAlloc, [h, n, 0x3000, 0x4])
            if hint == "base" and addr == h:
                st.last = (api, hint, _szc(n), "recommit")
            else:
                _check_new(st, "VirtualAlloc:" + hint, addr, n, probs)
                st.last = (api, hint, _szc(n), "broken" if st.broken else "fresh")
        elif api == "mmap":
            _, hint, n, fixed = ev
            h = _lin_hint(st, hint)
            flags = MAP_ANON_PRIV | (MAP_FIXED if fixed else 0)
            addr = st.env.mmap(h, n, 3, flags, 0xffffffff, 0, st.vm)
            if fixed:
                if addr != h:
                    st.broken = True
                    probs.append(("mmap-fixed:moved:%s" % hint, "mmap(MAP_FIXED, 0x%x, 0x%x) returned 0x%x" % (h, n, addr)))
                if n and not _covered(_pages(st), addr, n):
                    st.broken = True
                    probs.append(("mmap-fixed:not-mapped:%s" % hint, "mmap(MAP_FIXED, 0x%x, 0x%x): range not covered by pages %s" % (
                        h, n, [(hex(a), hex(s)) for a, s in _pages(st)])))
                if n:
                    # MAP_FIXED replaces what it covers (a zero-length one covers and places nothing)
                    keep = []
                    for o in st.live:
                        if o["size"] and o["addr"] < addr + n and addr < o["addr"] + o["size"]:
                            # partly replaced: what sticks out on either side stays live
                            if o["addr"] < addr:
                                keep.append(dict(addr=o["addr"], size=addr - o["addr"], api=o["api"]))
                            if addr + n < o["addr"] + o["size"]:
                                keep.append(dict(addr=addr + n, size=o["addr"] + o["size"] - addr - n, api=o["api"]))
                        elif not o["size"] and addr <= o["addr"] < addr + n:
                            pass
                        else:
                            keep.append(o)
                    st.live = keep
                    st.live.append(dict(addr=addr, size=n, api="mmap-fixed"))
                st.last = (api, hint, _szc(n), "fixed")
            else:
                _check_new(st, "mmap:" + hint, addr, n, probs)
                st.last = (api, hint, _szc(n), "broken" if st.broken else "fresh")
        elif api == "brk":
            d = ev[1]
            if d == "query":
                got = st.env.brk(0, st.vm)
                if got != st.brk_cur:
                    probs.append(("brk:query-wrong", "brk(0) = 0x%x, break is 0x%x" % (got, st.brk_cur)))
            else:
                new = _brk_target(st, d)
                old = st.brk_cur
                got = st.env.brk(new, st.vm)
                obstacles = [o for o in st.preexisting + st.live if o["size"] and old < o["addr"] + o["size"] and o["addr"] < new]
                kind = "same" if new == old else "grow" if new > old else "shrink"
                if got == new:
                    if new > old:
                        if not _covered(_pages(st), st.brk_base, new - st.brk_base):
                            st.broken = True
                            probs.append(("brk:grow:data-segment-not-mapped:%s" % ("foreign-mapping-above" if _foreign_above(st) else "plain"),
                                          "brk(0x%x) from 0x%x returned 0x%x but [0x%x, 0x%x) is not covered by the pages %s" % (
                                              new, old, got, st.brk_base, new, [(hex(a), hex(s)) for a, s in _pages(st)])))
                        for o in obstacles:
                            st.broken = True
                            probs.append(("brk:grow:overlaps-live:prev-%s" % o["api"].split(":")[0],
                                          "brk(0x%x) grew the data segment over [0x%x, 0x%x), which holds the live %s allocation [0x%x, 0x%x)" % (
                                              new, old, new, o["api"], o["addr"], o["addr"] + o["size"])))
                    st.brk_cur = new
                    res = "moved"
                elif got == old:
                    # refused, as Linux does (the break is returned unchanged): legitimate only if something is in the way
                    if not obstacles:
                        st.broken = True
                        probs.append(("brk:%s:refused-without-obstacle" % kind,
                                      "brk(0x%x) from 0x%x was refused although no live allocation lies in [0x%x, 0x%x)" % (new, old, old, new)))
                    res = "refused"
                else:
                    st.broken = True
                    probs.append(("brk:%s:returned-neither-old-nor-new" % kind, "brk(0x%x) from 0x%x returned 0x%x" % (new, old, got)))
                    res = "odd"
                st.last = (api, kind if isinstance(d, int) or d == "same" else d, res)
    except Exception as e:
        st.broken = True
        st.last = st.last[:1] + ("raise:" + type(e).__name__,)
        probs.append(("%s:raise:%s" % (api if api not in ("mmap",) else "mmap-fixed" if ev[3] else "mmap", type(e).__name__),
                      "event %r raised %r with live allocations %s" % (ev, e, [(o["api"], hex(o["addr"]), hex(o["size"])) for o in st.live])))
    return probs


def invariant(st):
    probs = []
    pages = [p for p in _pages(st) if p[1]]
    for (a, s), (b, t) in zip(pages, pages[1:]):
        if b < a + s:
            probs.append(("vm:pages-overlap", "VM lists overlapping pages [0x%x,0x%x) and [0x%x,0x%x)" % (a, a + s, b, b + t)))
            break
    for o in _others(st):
        if o["size"] and not _covered(pages, o["addr"], o["size"]):
            probs.append(("live-allocation-unmapped:%s" % o["api"].split(":")[0],
                          "live %s allocation [0x%x, 0x%x) is no longer covered by the pages" % (o["api"], o["addr"], o["addr"] + o["size"])))
            break
    return probs


def canon(st):
    if st.seed.startswith("win"):
        cur = (st.heap.addr,)
    else:
        cur = (st.env.brk_current, st.env.mmap_current, st.brk_cur)
    return (st.seed, cur, tuple(_pages(st)), tuple(sorted((o["addr"], o["size"]) for o in st.live)), st.broken)


def outcome(st, ev):
    return st.last


def run(ctx):
    import sys
    _TIER["tier"] = ctx.tier
    depths = DEPTH[ctx.tier]
    tctx = TallyCtx(ctx)
    cov = bfs.explore(tctx, sys.modules[__name__], max_depth=max(depths.values()), seeds=SEEDS, chunk=8)
    cov["outcome_counts"] = tctx.table()
    cov["bounds"] = {"depth_per_system": depths, "sizes": SIZES, "sizes_linux_mmap": SIZES_LINUX_QUICK if ctx.quick else SIZES,
                     "brk_relative_mmap_hints": list(BRK_HINTS), "brk_relative_mmap_sizes": list(BRK_HINT_SIZES), "brk_targets_around_foreign_mapping": list(BRK_TARGETS), "win_free_hint": WIN_FREE_HINT, "linux_free_hint": LIN_FREE_HINT,
                     "systems": SEEDS}
    return cov


def replay(case):
    import sys
    _TIER["tier"] = "thorough"
    return bfs.replay(sys.modules[__name__], SEEDS, case)
