"""C49 - a faulting instruction has no effect and leaves PC on it.

Engine E2/E3 (complete enumeration of a finite lattice): every instruction of a per-architecture list of memory-operand
instructions x every access of it that can fault (fault site) x fault kind {unmapped, read-only page (writes), straddling
from a mapped page into an unmapped / read-only one} x position of the instruction in its translated block {first,
middle, last} x jitter backend {python, gcc} x jit_maxline {1, 50}, on the real jitter of the shadow tree.

Every program is   pre1; pre2; F: <instruction>; cont: post1; post2; done:   where pre/post are register-only
instructions with order-sensitive visible effects, so that a skipped or doubly executed neighbour shows.  The position in
the block is produced by the translator itself: a pass-through breakpoint on F (block split before) / on cont (split after).

Oracle (reference = single-step Python-backend run, jit_maxline=1, max_exec_per_call=1, on the fully mapped image):
  1. the run stops through the EXCEPT_ACCESS_VIOL exception handler (no host exception escapes jitter.run, the program
     does not run on),
  2. jitter.pc and the cpu's PC register == address of F,
  3. every register (general purpose + flags) and every byte of every mapped page == the reference stopped on F,
  4. after vm/cpu.set_exception(0) and mapping / unprotecting the page, continue_run() reaches `done` and registers and
     memory == the reference run to `done`.
"""
import sys

PROP = "C49"
LEVEL = "exploration"
ENGINE = "enum"
RULE = ("complete product: memory-operand instruction x faulting access of it (operand / stack / source / destination) x fault kind "
        "(unmapped, read-only, straddle into unmapped, straddle into read-only) x position in the translated block (first, middle, last) x "
        "backend x jit_maxline; a case is distinct by that tuple and non-trivial when the reference run really performs the access on the "
        "fault address (measured: the fault-free reference changes or reads the bytes at that address) and the faulting run stops")
LEVEL_TEXT = ("Every instruction/fault/position combination of the stated lattice is executed on the real jitter (both available backends) and "
              "compared, register by register and byte by byte, with a single-step reference run on the fully mapped image, before and after "
              "resuming. Exhaustive for the lattice, which covers each access class (load, store, read-modify-write, stack, string, indirect "
              "call, two-memory-effect instructions) but not the whole instruction set.")
LEVEL_NOTE = ("The LLVM backend is not exercised: llvmlite is absent from this image (llvmconvert.py is anchored but cannot be run). Trusted: the "
              "fault-free single-step Python-backend run used as reference (cross-checked against the GCC backend fault-free run in every case), "
              "miasm's assembler. REP-prefixed string instructions (architecturally restartable, partial progress is legal) are outside the lattice.")
TECHNIQUE = "complete enumeration of an instruction x fault x block-position lattice on the real jitter against a single-step reference"
ASSUMPTIONS = ["the documented way to observe a fault is an exception handler on EXCEPT_ACCESS_VIOL returning False",
               "the Python backend's module-global simplifier passes are reset before each new jitter (one jitter per process in real use)"]

EXCEPT_ACCESS_VIOL = (1 << 14) | (1 << 25)
AV_BIT = 1 << 14
R, W, X = 1, 2, 4
CODE = 0x1000
P1 = 0x2000           # always mapped RW
P2 = 0x2040           # the page that is missing / read-only in the faulting run
PSIZE = 0x40
A_IN = P2 + 8         # access entirely inside P2
G1, G2, GSTK = P1 + 0x10, P1 + 0x20, P1 + 0x30

KINDS = ["unmapped", "readonly", "straddle", "straddle_ro",
         # three pages: good | a 1- or 2-byte middle page that is unmapped / not writable / not readable | good; the access
         # starts on the last byte of the first page and ends in the third one (it crosses TWO page ends)
         "mid1_unmapped", "mid2_unmapped", "mid1_nowrite", "mid2_nowrite", "mid1_noread", "mid2_noread"]
MID_KINDS = [k for k in KINDS if k.startswith("mid")]
POSITIONS = ["first", "middle", "last"]
BACKENDS = ["python", "gcc"]
MAXLINES = [50, 1]
QUICK_GCC = ("mov_store", "push_mem")


class Arch(object):
    force_aligned = False


def _x86():
    a = Arch()
    a.name = "x86_32"
    a.exts = ["JitCore_x86"]
    a.pc = "EIP"
    a.attrib = 32
    a.pre = ["ADD EDX, 0x1111", "ADD EBP, EDX"]
    a.post = ["ADD EDX, 0x100", "XOR EBP, EDX"]
    a.end = ["RET"]
    a.regs0 = {"EAX": 0x0A0B0C0D, "ECX": 0x11223344, "EDX": 5, "EBP": 7, "EBX": G1, "ESI": G1, "EDI": G2, "ESP": GSTK}
    # (name, asm, [(site, class, faulting access r/w/rw, size, {pointer register: delta to the fault address}, pointer to cont stored there?)])
    a.insns = [
        ("mov_store", "MOV DWORD PTR [EBX], ECX", [("op", "store", "w", 4, {"EBX": 0}, False)]),
        ("mov_load", "MOV ECX, DWORD PTR [EBX]", [("op", "load", "r", 4, {"EBX": 0}, False)]),
        ("add_mem", "ADD DWORD PTR [EBX], ECX", [("op", "read-modify-write", "rw", 4, {"EBX": 0}, False)]),
        ("push", "PUSH ECX", [("stack", "stack-store", "w", 4, {"ESP": 4}, False)]),
        ("pop", "POP ECX", [("stack", "stack-load", "r", 4, {"ESP": 0}, False)]),
        ("xchg", "XCHG DWORD PTR [EBX], ECX", [("op", "read-modify-write", "rw", 4, {"EBX": 0}, False)]),
        ("movsb", "MOVSB", [("src", "two-mem:load-faults", "r", 1, {"ESI": 0}, False),
                            ("dst", "two-mem:store-faults", "w", 1, {"EDI": 0}, False)]),
        ("call_mem", "CALL DWORD PTR [EBX]", [("op", "two-mem:load-faults", "r", 4, {"EBX": 0}, True),
                                              ("stack", "two-mem:store-faults", "w", 4, {"ESP": 4}, False)]),
        ("inc_mem", "INC DWORD PTR [EBX]", [("op", "read-modify-write", "rw", 4, {"EBX": 0}, False)]),
        ("push_mem", "PUSH DWORD PTR [EBX]", [("src", "two-mem:load-faults", "r", 4, {"EBX": 0}, False),
                                              ("stack", "two-mem:store-faults", "w", 4, {"ESP": 4}, False)]),
        ("movsd", "MOVSD", [("src", "two-mem:load-faults", "r", 4, {"ESI": 0}, False),
                            ("dst", "two-mem:store-faults", "w", 4, {"EDI": 0}, False)]),
        ("pop_mem", "POP DWORD PTR [EBX]", [("stack", "two-mem:load-faults", "r", 4, {"ESP": 0}, False),
                                            ("dst", "two-mem:store-faults", "w", 4, {"EBX": 0}, False)]),
        ("ret", "RET", [("stack", "stack-load", "r", 4, {"ESP": 0}, True)]),
        ("mov_store16", "MOV WORD PTR [EBX], CX", [("op", "store", "w", 2, {"EBX": 0}, False)]),
        ("cmp_mem", "CMP DWORD PTR [EBX], ECX", [("op", "load", "r", 4, {"EBX": 0}, False)]),
    ]
    # CALL [EBX] / RET with a good pointer need the address of `cont` in the good slots as well
    a.good_ptr_slots = [G1, GSTK]
    a.flow_breakers = {"call_mem", "ret"}
    return a


def _arm():
    a = Arch()
    a.name = "arml"
    a.exts = ["JitCore_arm"]
    a.pc = "PC"
    a.attrib = "l"
    a.pre = ["ADD R4, R4, 0x11", "ADD R5, R5, R4"]
    a.post = ["ADD R4, R4, 0x100", "EOR R5, R5, R4"]
    a.end = ["BX LR"]
    a.regs0 = {"R0": 0x0A0B0C0D, "R1": 0x11223344, "R2": G1, "R3": 9, "R4": 5, "R5": 7, "SP": GSTK}
    a.insns = [
        ("str", "STR R1, [R2]", [("op", "store", "w", 4, {"R2": 0}, False)]),
        ("ldr", "LDR R3, [R2]", [("op", "load", "r", 4, {"R2": 0}, False)]),
        ("str_writeback", "STR R1, [R2, 0x4]!", [("op", "store+writeback", "w", 4, {"R2": -4}, False)]),
        ("ldr_postindex", "LDR R3, [R2], 0x4", [("op", "load+writeback", "r", 4, {"R2": 0}, False)]),
    ]
    a.good_ptr_slots = []
    a.flow_breakers = set()
    return a


def _mips():
    a = Arch()
    a.name = "mips32l"
    a.exts = ["JitCore_mips32"]
    a.pc = "PC"
    a.attrib = "l"
    a.pre = ["ADDIU T0, T0, 0x11", "ADDU T1, T1, T0"]
    a.post = ["ADDIU T0, T0, 0x100", "XOR T1, T1, T0"]
    a.end = ["JR RA", "NOP"]
    a.regs0 = {"A0": 0x0A0B0C0D, "A1": 0x11223344, "A2": G1, "A3": 9, "T0": 5, "T1": 7, "SP": GSTK}
    a.insns = [
        ("sw", "SW A1, 0x0(A2)", [("op", "store", "w", 4, {"A2": 0}, False)]),
        ("lw", "LW A3, 0x0(A2)", [("op", "load", "r", 4, {"A2": 0}, False)]),
        ("sb", "SB A1, 0x0(A2)", [("op", "store", "w", 1, {"A2": 0}, False)]),
        ("lhu", "LHU A3, 0x0(A2)", [("op", "load", "r", 2, {"A2": 0}, False)]),
    ]
    a.good_ptr_slots = []
    a.flow_breakers = set()
    return a


def _mep():
    a = Arch()
    a.name = "mepb"       # the little-endian MeP assembler of miasm is unusable (mn_mep.asm fails in mode "l")
    a.exts = ["JitCore_mep"]
    a.pc = "PC"
    a.attrib = "b"
    a.pre = ["ADD R4, 0x11", "ADD3 R5, R5, R4"]
    a.post = ["ADD R4, 1", "XOR R5, R4"]
    a.end = ["RET"]
    a.regs0 = {"R0": 0x0A0B0C0D, "R1": 0x11223344, "R2": G1, "R3": 9, "R4": 5, "R5": 7, "SP": GSTK}
    a.insns = [
        ("sw", "SW R1, (R2)", [("op", "store", "w", 4, {"R2": 0}, False)]),
        ("lw", "LW R3, (R2)", [("op", "load", "r", 4, {"R2": 0}, False)]),
        ("sb", "SB R1, (R2)", [("op", "store", "w", 1, {"R2": 0}, False)]),
        ("lh", "LH R3, (R2)", [("op", "load", "r", 2, {"R2": 0}, False)]),
    ]
    a.good_ptr_slots = []
    a.flow_breakers = set()
    a.force_aligned = True      # MeP loads/stores ignore the low address bits: an access cannot straddle
    return a


ARCHS = {"x86_32": _x86, "arml": _arm, "mips32l": _mips, "mepb": _mep}
_arch_cache = {}


def arch_of(name):
    if name not in _arch_cache:
        _arch_cache[name] = ARCHS[name]()
    return _arch_cache[name]


def assemble(a, lines, base):
    """Assemble label-free instructions one by one with miasm's own assembler; returns (bytes, [offsets])."""
    from miasm.analysis.machine import Machine
    from miasm.core.locationdb import LocationDB
    m = Machine(a.name)
    loc_db = LocationDB()
    out = b""
    offs = []
    for line in lines:
        if a.name.startswith("mep"):
            mn = m.mn()
            ins = mn.fromstring(line, a.attrib)
            ins.mode = a.attrib
            cands = mn.asm(ins)
        else:
            ins = m.mn.fromstring(line, loc_db, a.attrib)
            ins.offset = base + len(out)
            cands = m.mn.asm(ins)
        offs.append(base + len(out))
        out += cands[0]
    return out, offs


def kinds_for(access, size, aligned=False):
    ks = ["unmapped"]
    if "w" in access:
        ks.append("readonly")
    if size >= 2 and not aligned:
        ks.append("straddle")
        if "w" in access:
            ks.append("straddle_ro")
    if size >= 4 and not aligned:
        ks += ["mid1_unmapped", "mid2_unmapped"]
        if "w" in access:
            ks += ["mid1_nowrite", "mid2_nowrite"]
        if "r" in access:
            ks += ["mid1_noread", "mid2_noread"]
    return ks


def fault_layout(kind, p2):
    """Pages mapped in the faulting run over the range of P2: [(address, permission, bytes)]."""
    if kind in ("unmapped", "straddle"):
        return []
    if kind in ("readonly", "straddle_ro"):
        return [(P2, R, p2)]
    m = int(kind[3])
    perm = {"unmapped": None, "nowrite": R, "noread": W}[kind.split("_")[1]]
    out = [(P2 + m, R | W, p2[m:])]
    if perm is not None:
        out.insert(0, (P2, perm, p2[:m]))
    return out


def repair_layout(jit, kind, p2):
    """Map / unprotect what made the access fault."""
    if kind in ("unmapped", "straddle"):
        jit.vm.add_memory_page(P2, R | W, p2, "p2")
    elif kind in ("readonly", "straddle_ro"):
        jit.vm.set_mem_access(P2, R | W)
    elif kind.endswith("unmapped"):
        jit.vm.add_memory_page(P2, R | W, p2[:int(kind[3])], "middle")
    else:
        jit.vm.set_mem_access(P2, R | W)


def fault_addr(kind, size):
    if kind in ("unmapped", "readonly"):
        return A_IN
    if kind in MID_KINDS:
        return P2 - 1              # one byte in P1, the middle page, the rest in the third page
    return P2 - size // 2          # half of the bytes in P1, half in P2


def all_cases(arch_names, quick=False):
    out = []
    for an in arch_names:
        a = arch_of(an)
        for ii, (iname, asm, sites) in enumerate(a.insns):
            for si, site in enumerate(sites):
                for kind in kinds_for(site[2], site[3], a.force_aligned):
                    for be in BACKENDS:
                        if quick and be == "gcc" and iname not in QUICK_GCC:
                            continue        # every new block costs a C compilation: the quick tier compiles 2 instructions
                        for ml in MAXLINES:
                            if quick and be == "gcc" and ml == 1:
                                continue
                            if quick and kind in MID_KINDS:
                                if ml == 50:
                                    out.append((an, ii, si, kind, "middle", be, ml))
                                continue
                            for pos in (POSITIONS if ml != 1 else ["middle"]):
                                out.append((an, ii, si, kind, pos, be, ml))
    return out


# ------------------------------------------------------------------------------------------------ one case

_prog_cache = {}


def program(a, ii):
    """(code bytes, {main, F, cont, done}, instruction offsets) of pre1; pre2; F: insn; cont: post1; post2; done: end."""
    key = (a.name, ii)
    if key not in _prog_cache:
        lines = a.pre + [a.insns[ii][1]] + a.post + a.end
        code, offs = assemble(a, lines, CODE)
        n = len(a.pre)
        labels = {"main": CODE, "F": offs[n], "cont": offs[n + 1], "done": offs[n + 1 + len(a.post)]}
        _prog_cache[key] = (code, labels, offs)
    return _prog_cache[key]


def image(a, ii, site, kind):
    """Fully mapped image: bytes of P1 and P2, initial registers."""
    code, labels, offs = program(a, ii)
    p = bytearray((i * 7 + 3) & 0xFF for i in range(2 * PSIZE))
    A = fault_addr(kind, site[3])
    regs = dict(a.regs0)
    for r, delta in site[4].items():
        regs[r] = A + delta
    cont = labels["cont"]

    def put32(addr, v):
        p[addr - P1:addr - P1 + 4] = v.to_bytes(4, "little")
    for slot in a.good_ptr_slots:
        put32(slot, cont)
    if site[5]:
        put32(A, cont)
    return bytes(p[:PSIZE]), bytes(p[PSIZE:]), regs, A


def observe(jit):
    regs = dict(jit.cpu.get_gpreg())
    mem = {}
    for ad, d in jit.vm.get_all_memory().items():
        for i, b in enumerate(bytes(d["data"])):
            mem[ad + i] = b
    return regs, mem


def _mk(a, backend, maxline, maxexec, ii, p1, p2, regs, layout):
    from mc import jitx
    code, labels, offs = program(a, ii)
    jit = jitx.fresh(a.name, backend, jit_maxline=maxline, max_exec_per_call=maxexec)
    jit.vm.add_memory_page(CODE, R | W | X, code, "code")
    jit.vm.add_memory_page(P1, R | W, p1, "p1")
    for ad, perm, content in layout:
        jit.vm.add_memory_page(ad, perm, content, "p2")
    for r, v in regs.items():
        setattr(jit.cpu, r, v)
    st = {"done": False, "faults": []}

    def done_cb(j):
        st["done"] = True
        return False

    def av_cb(j):
        st["faults"].append((j.pc, j.cpu.get_exception(), j.vm.get_exception()))
        return False
    jit.add_breakpoint(labels["done"], done_cb)
    jit.add_exception_handler(EXCEPT_ACCESS_VIOL, av_cb)
    return jit, st, labels


_ref_cache = {}


def reference(a, ii, si, kind):
    """(pre-state at F, final state at done) of the fully mapped single-step run, or an error string."""
    key = (a.name, ii, si, kind)
    if key in _ref_cache:
        return _ref_cache[key]
    site = a.insns[ii][2][si]
    p1, p2, regs, A = image(a, ii, site, kind)
    jit, st, labels = _mk(a, "python", 1, 1, ii, p1, p2, regs, [(P2, R | W, p2)])
    hit = []

    def stop_f(j):
        if not hit:
            hit.append(j.pc)
            return False
        return True
    jit.add_breakpoint(labels["F"], stop_f)
    try:
        jit.run(CODE)
        if not hit or st["faults"] or st["done"]:
            raise RuntimeError("reference did not stop on F: %r %r" % (hit, st))
        pre = observe(jit)
        jit.continue_run()
        if not st["done"] or st["faults"]:
            raise RuntimeError("reference did not reach done: pc=%#x %r" % (jit.pc, st))
        fin = observe(jit)
        out = (pre, fin)
    except Exception as e:
        out = "reference run failed: %s: %s" % (type(e).__name__, e)
    _ref_cache[key] = out
    return out


def _diff_regs(got, want, ignore):
    return sorted(k for k in want if k not in ignore and got.get(k) != want[k])


def _region(ad):
    return CODE if ad < P1 else (P1 if ad < P2 else P2)


def _diff_mem(got, want):
    """Every mapped byte of @got (address -> byte) against @want; returns [(region, first differing address)]."""
    out = {}
    for ad in sorted(got):
        if want.get(ad) != got[ad]:
            out.setdefault(_region(ad), ad)
    return sorted(out.items())


PAGE_NAMES = {CODE: "code", P1: "mapped-page", P2: "fault-page"}


def run_case(case):
    """Returns (problems, info). problems: list of (sig, what)."""
    an, ii, si, kind, pos, be, ml = case
    a = arch_of(an)
    iname, asm, sites = a.insns[ii]
    site = sites[si]
    sname, cls, access, size = site[0], site[1], site[2], site[3]
    ref = reference(a, ii, si, kind)
    # signature skeleton: which half of the access faults (the instruction class goes to the witness text)
    direction = "load" if access == "r" or (access == "rw" and (kind in ("unmapped", "straddle") or kind.endswith(("_unmapped", "_noread")))) else "store"
    pre_sig = "%s:%s:%s-faults:%s" % (an, be, direction, kind)
    ctx_txt = "%s `%s` (%s, %s access faults, %s, fault address %#x), position %s in its block, backend %s, jit_maxline %d" % (
        an, asm, cls, sname, kind, fault_addr(kind, size), pos, be, ml)
    if isinstance(ref, str):
        return [("harness:reference-failed:%s:%s" % (an, iname), ref + " for " + ctx_txt)], {"outcome": "ref-failed"}
    (pre_regs, pre_mem), (fin_regs, fin_mem) = ref
    p1, p2, regs, A = image(a, ii, site, kind)
    nontrivial = pre_mem != fin_mem or "r" in access
    jit, st, labels = _mk(a, be, ml, None, ii, p1, p2, regs, fault_layout(kind, p2))
    F = labels["F"]
    passthrough = lambda j: True
    if pos == "first":
        jit.add_breakpoint(F, passthrough)
    elif pos == "last":
        jit.add_breakpoint(labels["cont"], passthrough)
    probs = []
    info = {"nontrivial": nontrivial}
    pcreg = a.pc
    ignore = {"RIP", pcreg, "PC"}
    try:
        jit.run(CODE)
        escaped = None
    except Exception as e:
        escaped = e
    if escaped is not None:
        from miasm.jitter.jitload import JitterException
        if isinstance(escaped, JitterException):
            probs.append((pre_sig + ":stops-with-other-exception-flags",
                          "run of %s raised %s instead of reporting an access violation" % (ctx_txt, escaped)))
        else:
            dm = _diff_mem(observe(jit)[1], pre_mem)
            probs.append((pre_sig + ":host-exception-escapes-run:%s" % type(escaped).__name__,
                          "jitter.run raised %s: %s (jitter.pc=%#x, F=%#x, vm exception flags %#x, memory changed at %s) for %s" % (
                              type(escaped).__name__, escaped, jit.pc, F, jit.vm.get_exception(),
                              [hex(x if x is not None else p) for p, x in dm] or "nowhere", ctx_txt)))
        info["outcome"] = "escaped"
        return probs, info
    if not st["faults"]:
        got_regs, got_mem = observe(jit)
        dm = _diff_mem(got_mem, pre_mem)
        probs.append((pre_sig + ":fault-not-reported",
                      "no access violation was reported (run %s, jitter.pc=%#x); memory changed at %s; registers differing from the state before F: %s; for %s" % (
                          "reached done" if st["done"] else "stopped", jit.pc, [hex(x if x is not None else p) for p, x in dm] or "nowhere",
                          _diff_regs(got_regs, pre_regs, ignore), ctx_txt)))
        info["outcome"] = "no-fault"
        return probs, info
    info["outcome"] = "fault"
    fpc, cpu_exc, vm_exc = st["faults"][0]
    if not ((cpu_exc | vm_exc) & AV_BIT):
        probs.append((pre_sig + ":flag-missing", "handler ran without the access violation bit: cpu %#x vm %#x; %s" % (cpu_exc, vm_exc, ctx_txt)))
    if jit.pc != F:
        where = "block-start" if jit.pc == CODE else ("next-instruction" if jit.pc == labels["cont"] else "elsewhere")
        probs.append((pre_sig + ":pc-not-on-faulting-instruction:%s" % where,
                      "jitter.pc = %#x after the fault, faulting instruction at %#x; %s" % (jit.pc, F, ctx_txt)))
    cpupc = getattr(jit.cpu, pcreg)
    if cpupc != F:
        probs.append((pre_sig + ":cpu-pc-register-not-on-faulting-instruction",
                      "cpu.%s = %#x after the fault, faulting instruction at %#x; %s" % (pcreg, cpupc, F, ctx_txt)))
    got_regs, got_mem = observe(jit)
    dr = _diff_regs(got_regs, pre_regs, ignore)
    if dr:
        probs.append((pre_sig + ":registers-changed:%s" % ",".join(dr),
                      "registers after the fault differ from the state before the instruction: %s; %s" % (
                          ", ".join("%s=%#x (before %#x)" % (k, got_regs[k], pre_regs[k]) for k in dr), ctx_txt)))
    dm = _diff_mem(got_mem, pre_mem)
    if dm:
        probs.append((pre_sig + ":memory-changed:%s" % ",".join(PAGE_NAMES.get(p, hex(p)) for p, _ in dm),
                      "memory after the fault differs from the state before the instruction at %s; %s" % (
                          ", ".join("%#x" % (x if x is not None else p) for p, x in dm), ctx_txt)))
    # resume
    jit.vm.set_exception(0)
    jit.cpu.set_exception(0)
    repair_layout(jit, kind, p2)
    try:
        jit.continue_run()
        escaped = None
    except Exception as e:
        escaped = e
    if escaped is not None:
        probs.append((pre_sig + ":resume:raises:%s" % type(escaped).__name__,
                      "continue_run after clearing the fault and mapping the page raised %s: %s; %s" % (type(escaped).__name__, escaped, ctx_txt)))
        return probs, info
    if not st["done"] or len(st["faults"]) != 1:
        probs.append((pre_sig + ":resume:does-not-complete",
                      "after clearing the fault and mapping the page the run did not reach the end (pc=%#x, faults %r); %s" % (
                          jit.pc, [(hex(x[0]), hex(x[2])) for x in st["faults"]], ctx_txt)))
        return probs, info
    got_regs, got_mem = observe(jit)
    dr = _diff_regs(got_regs, fin_regs, ignore)
    dm = _diff_mem(got_mem, fin_mem)
    if dr or dm:
        probs.append((pre_sig + ":resume:final-state-differs:%s" % ",".join(dr + [PAGE_NAMES.get(p, hex(p)) for p, _ in dm]),
                      "final state after resuming differs from the fault-free run: %s %s; %s" % (
                          ", ".join("%s=%#x (fault-free %#x)" % (k, got_regs[k], fin_regs[k]) for k in dr),
                          ", ".join("byte %#x" % (x if x is not None else p) for p, x in dm), ctx_txt)))
    return probs, info


def fault_free_crosscheck(an, ii, si, kind, be, ml):
    """The trusted reference (python, single step) against a fault-free run of another configuration."""
    a = arch_of(an)
    site = a.insns[ii][2][si]
    ref = reference(a, ii, si, kind)
    if isinstance(ref, str):
        return []
    p1, p2, regs, A = image(a, ii, site, kind)
    jit, st, labels = _mk(a, be, ml, None, ii, p1, p2, regs, [(P2, R | W, p2)])
    try:
        jit.run(CODE)
    except Exception as e:
        return [("harness:fault-free-run-raises:%s:%s" % (an, be), "fault-free run of `%s` raised %r" % (a.insns[ii][1], e))]
    got_regs, got_mem = observe(jit)
    dr = _diff_regs(got_regs, ref[1][0], {"RIP", a.pc, "PC"})
    dm = _diff_mem(got_mem, ref[1][1])
    if dr or dm or not st["done"]:
        return [("harness:fault-free-run-differs-from-reference:%s:%s" % (an, be),
                 "fault-free run of `%s` on %s/jit_maxline=%d differs from the single-step reference: regs %s mem %s done %s" % (
                     a.insns[ii][1], be, ml, dr, dm, st["done"]))]
    return []


def _shard(cases):
    from mc.runner import violation
    _load([c[0] for c in cases])
    vs = []
    stats = {"evaluations": 0, "nontrivial": set(), "outcomes": {}, "crosschecks": 0}
    seen_cc = set()
    for case in cases:
        case = tuple(case)
        probs, info = run_case(case)
        stats["evaluations"] += 1
        oc = info.get("outcome")
        stats["outcomes"][oc] = stats["outcomes"].get(oc, 0) + 1
        if info.get("nontrivial") and oc in ("fault", "escaped", "no-fault"):
            stats["nontrivial"].add(case)
        for sig, what in probs:
            vs.append(violation(sig, what, {"case": list(case)}))
        cck = (case[0], case[1], case[2], case[3], case[5], case[6])
        if case[5] != "python" and cck not in seen_cc:
            seen_cc.add(cck)
            stats["crosschecks"] += 1
            for sig, what in fault_free_crosscheck(*cck):
                vs.append(violation(sig, what, {"case": list(case), "crosscheck": True}))
    stats["nontrivial"] = sorted(stats["nontrivial"])
    return vs, stats


_loaded = set()


def _load(arch_names):
    from mc import jitx
    exts = sorted({e for n in arch_names for e in arch_of(n).exts})
    jitx.activate(exts)


def _gcc_jobs(cases):
    """One job per distinct block (start offset, bytes) the GCC cases can meet."""
    jobs = {}
    for an, ii in sorted({(c[0], c[1]) for c in cases if c[5] == "gcc"}):
        a = arch_of(an)
        code, labels, offs = program(a, ii)
        F, cont, done = labels["F"], labels["cont"], labels["done"]
        breaks = a.insns[ii][0] in a.flow_breakers
        wanted = [(CODE, F), (CODE, cont), (CODE, done), (F, cont), (F, done), (cont, done)]
        if any(c[0] == an and c[1] == ii and c[5] == "gcc" and c[6] == 1 for c in cases):
            wanted += [(o, offs[k + 1]) for k, o in enumerate(offs) if o < done]
        for start, end in wanted:
            if breaks and start <= F < end:
                end = cont
            key = (an, start, code[start - CODE:end - CODE])
            jobs.setdefault(key, (an, code, CODE, start, (end,), 50))
    return [jobs[k] for k in sorted(jobs)]


def arch_list(quick):
    return ["x86_32"] if quick else list(ARCHS)


def run(ctx):
    try:
        return _run(ctx)
    except Exception:
        import traceback
        traceback.print_exc(file=sys.stdout)     # fd 2 is silenced (C runtime chatter)
        raise


def _run(ctx):
    from mc import jitx
    names = arch_list(ctx.quick)
    _load(names)
    cases = all_cases(names, ctx.quick)
    import time
    t0 = time.time()
    compiled = jitx.precompile(ctx, _gcc_jobs(cases))
    t1 = time.time()
    # shard by (arch, instruction, site, backend) so that the reference is computed once per shard
    groups = {}
    for c in cases:
        groups.setdefault((c[0], c[1], c[2], c[5]), []).append(c)
    shards = [groups[k] for k in sorted(groups)]
    res = ctx.pmap(_shard, shards)
    ev = 0
    nontrivial = 0
    outcomes = {}
    cc = 0
    samples = []
    for vs, stats in res:
        ctx.add_violations(vs)
        ev += stats["evaluations"]
        nontrivial += len(stats["nontrivial"])
        cc += stats["crosschecks"]
        for k, v in stats["outcomes"].items():
            outcomes[str(k)] = outcomes.get(str(k), 0) + v
        if len(samples) < 4 and stats["nontrivial"]:
            samples.append(stats["nontrivial"][0])
    per_arch = {}
    for c in cases:
        per_arch[c[0]] = per_arch.get(c[0], 0) + 1
    return {
        "evaluations": ev,
        "distinct_nontrivial": nontrivial,
        "samples": samples,
        "exhaustive": True,
        "outcome_counts": outcomes,
        "distinct_outcomes": len(outcomes),
        "fault_free_crosschecks": cc,
        "gcc_blocks_precompiled": compiled,
        "seconds_precompile": round(t1 - t0, 1),
        "seconds_cases": round(time.time() - t1, 1),
        "cases_per_arch": per_arch,
        "bounds": {"archs": names, "instructions": {n: [i[0] for i in arch_of(n).insns] for n in names},
                   "fault_kinds": KINDS, "positions": POSITIONS, "backends": BACKENDS, "jit_maxline": MAXLINES,
                   "gcc_instructions": list(QUICK_GCC) if ctx.quick else "all", "gcc_jit_maxline": [50] if ctx.quick else MAXLINES},
    }


def replay(case):
    from mc.runner import violation
    c = tuple(case["case"])
    _load([c[0]])
    if case.get("crosscheck"):
        probs = fault_free_crosscheck(c[0], c[1], c[2], c[3], c[5], c[6])
    else:
        probs, _ = run_case(c)
    return [violation(sig, what, case) for sig, what in probs]
