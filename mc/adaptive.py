"""Execution strategy for sharded enumerations on a shared, oversubscribed machine.

`amap(ctx, fn, shards)` returns exactly what `ctx.pmap(fn, shards)` returns (results in shard order; the set of
cases and every verdict are identical), but runs the shards in-process when the 1-minute load average is far above
the number of CPUs (see `oversubscribed`).  Measured on this host at load ~130 on 16 CPUs: the same 20 CPU-seconds of work take 21 s in one
process, 30 s on 4 workers and 55 s on 16 workers (CPU steal and page-fault cost of 16 freshly forked heaps), so a fork
pool is counter-productive exactly when the time budget is tightest.  Only the schedule depends on the load, never a result.
"""
import os

OVERSUBSCRIBED = 0.75   # load per CPU above which the pool is not used


def oversubscribed():
    """1-minute load average, or the number of currently runnable tasks (more current), above 0.75 per CPU.
    The choice is asymmetric on purpose: in-process on an idle machine costs seconds, a pool on a busy one minutes
    (at load ~35 on 16 CPUs a 13 s in-process run took 43 s on the pool)."""
    ncpu = os.cpu_count() or 1
    load = 0.0
    try:
        load = os.getloadavg()[0]
    except (OSError, AttributeError):
        pass
    try:
        with open("/proc/loadavg") as fd:
            load = max(load, float(fd.read().split()[3].split("/")[0]) - 1)
    except (OSError, ValueError, IndexError):
        pass
    return load > OVERSUBSCRIBED * ncpu


def amap(ctx, fn, shards):
    shards = list(shards)
    if ctx.nproc > 1 and len(shards) > 1 and oversubscribed():
        return [fn(s) for s in shards], "in-process"
    return ctx.pmap(fn, shards), "pool"
