"""Explicit-state breadth-first search over the *real* implementation (engine E1).

A state is the event history that reaches it. Live objects are never copied: every expansion
rebuilds the state by replaying its history on fresh real objects (`sys.make()`), applies one more
event to the implementation and to the boring reference model in lock step, compares what the two
return/observe, evaluates the invariant, and hashes a canonical form of the new state to deduplicate.

A system description is an object (module, class instance) with

    make(seed)                 -> state object `st` holding the real implementation and the model
                                  (seed is one of `seeds`: a list of events to pre-apply, or any tag)
    events(st)                 -> list of json-able events enabled in `st` (small finite menu)
    apply(st, ev)              -> list of (sig, what) problems seen while applying ev to impl+model
                                  (return-value disagreement, unexpected exception, ...)
    invariant(st)              -> list of (sig, what) problems of the state itself
    canon(st)                  -> hashable canonical form (property-relevant fields only)
    outcome(st, ev) (optional) -> hashable observed outcome, for the vacuity counter

The search is level-synchronous; each level's frontier is sharded over the process pool.
"""
import collections

from mc.runner import violation

_SYS = None


def _rebuild(seed, hist):
    st = _SYS.make(seed)
    for ev in hist:
        _SYS.apply(st, ev)
    return st


def _expand(chunk):
    """chunk: list of (seed_idx, seed, hist). Returns list of per-successor records."""
    out = []
    for seed_idx, seed, hist in chunk:
        base = _rebuild(seed, hist)
        evs = _SYS.events(base)
        for ev in evs:
            st = _rebuild(seed, hist)
            probs = []
            try:
                probs += list(_SYS.apply(st, ev) or [])
                probs += list(_SYS.invariant(st) or [])
                key = _SYS.canon(st)
            except Exception as e:  # an exception escaping apply/invariant is a harness-visible problem
                import traceback
                probs.append(("harness-or-impl-exception:%s" % type(e).__name__,
                              "exception %r escaped while applying %r after %r\n%s" % (e, ev, hist, traceback.format_exc()[-600:])))
                key = ("EXC", repr(hist), repr(ev))
            oc = None
            if hasattr(_SYS, "outcome"):
                try:
                    oc = _SYS.outcome(st, ev)
                except Exception:
                    oc = None
            out.append((seed_idx, hist + [ev], key, probs, oc))
    return out


def explore(ctx, sysdesc, max_depth, seeds=(None,), state_cap=None, chunk=8, prop=None):
    """Run the search. Returns coverage dict; violations are added to ctx."""
    global _SYS
    _SYS = sysdesc
    seen = {}
    frontier = []
    problems = 0
    outcomes = set()
    for i, seed in enumerate(seeds):
        st = sysdesc.make(seed)
        for sig, what in (sysdesc.invariant(st) or []):
            ctx.violation(sig, what, {"seed": i, "hist": []})
        k = sysdesc.canon(st)
        if k not in seen:
            seen[k] = (i, [])
            frontier.append((i, seed, []))
    transitions = 0
    depth = 0
    per_depth = [len(frontier)]
    cap_hit = False
    samples = []
    while frontier and depth < max_depth:
        chunks = [frontier[j:j + chunk] for j in range(0, len(frontier), chunk)]
        res = ctx.pmap(_expand, chunks)
        nxt = []
        for recs in res:
            for seed_idx, hist, key, probs, oc in recs:
                transitions += 1
                if oc is not None:
                    outcomes.add(oc)
                for sig, what in probs:
                    problems += 1
                    ctx.violation(sig, what, {"seed": seed_idx, "hist": hist})
                if key not in seen:
                    if state_cap is not None and len(seen) >= state_cap:
                        cap_hit = True
                        continue
                    seen[key] = (seed_idx, hist)
                    nxt.append((seed_idx, seeds[seed_idx], hist))
                    if len(samples) < 3 and len(hist) == min(max_depth, 3):
                        samples.append({"seed": seed_idx, "history": hist})
        depth += 1
        per_depth.append(len(nxt))
        frontier = nxt
    if not samples and seen:
        samples = [{"seed": s, "history": h} for (s, h) in list(seen.values())[-3:]]
    return {
        "states": len(seen),
        "transitions": transitions,
        "traces_validated_against_impl": transitions,
        "max_depth": depth,
        "new_states_per_depth": per_depth,
        "frontier_exhausted": not frontier,
        "state_cap_hit": cap_hit,
        "exhaustive": not cap_hit,
        "distinct_outcomes": len(outcomes),
        "samples": samples,
        "evaluations": transitions,
        "distinct_nontrivial": len(seen),
    }


def replay(sysdesc, seeds, case):
    """Replay one recorded history without the explorer; return violations."""
    global _SYS
    _SYS = sysdesc
    seed = seeds[case.get("seed", 0)]
    hist = case["hist"]
    st = sysdesc.make(seed)
    vs = []
    for i, ev in enumerate(hist):
        ev = _tuplify(ev)
        probs = list(sysdesc.apply(st, ev) or []) + list(sysdesc.invariant(st) or [])
        if i == len(hist) - 1:
            for sig, what in probs:
                vs.append(violation(sig, what, case))
    if not hist:
        for sig, what in (sysdesc.invariant(st) or []):
            vs.append(violation(sig, what, case))
    return vs


def _tuplify(x):
    if isinstance(x, list):
        return tuple(_tuplify(i) for i in x)
    return x
