"""ELF corpus shared by C43 (round-trip) and C44 (loading).

Every object the local toolchain can produce *offline* from a handful of tiny, header-free C sources:

    gcc  x86-64   exec (-no-pie), PIE, static (if libc.a is there), -shared, -c, -c -g -ffunction-sections
    gcc  -m32 -c                      (if the compiler accepts it)        + ld -m elf_i386 -shared of that object
    clang --target=<T>-linux-gnu -c   for every T of CLANG_TARGETS the installed clang accepts

The sources are written into a per-run temporary directory, compiled there (relative paths, so that no build
path leaks into the objects) and the results are copied to /verif/.cache/elfcorpus/<key>/ where <key> hashes the
sources, the command lines and the compiler versions. A missing or incomplete cache directory is simply rebuilt.
A command that fails is *recorded* (manifest "produced": false), never an error.
"""
import hashlib
import json
import os
import shutil
import subprocess
import tempfile
from concurrent.futures import ThreadPoolExecutor

ROOT = os.path.dirname(os.path.dirname(os.path.abspath(__file__)))
CACHE = os.path.join(ROOT, ".cache", "elfcorpus")

SOURCES = {
    # libc import through the PLT, data, bss, rodata, a static function
    "hello.c": r'''
int puts(const char *);
int printf(const char *, ...);
int g = 3; int b[10]; const char *s = "hello";
static int sq(int x) { return x * x; }
int main(int argc, char **argv) { puts(s); printf("%d %s\n", sq(argc) + g + b[1], argv[0]); return 0; }
''',
    # relocations inside data, function pointers to imports, read-only tables
    "data.c": r'''
extern int ext(int);
extern int extvar;
int gv = 7; static int tab[4] = {1, 2, 3, 4}; int zero[8];
int *pg = &gv; int *pe = &extvar; int (*fp)(int) = ext;
const int ro[3] = {9, 8, 7}; const int *const pro = &ro[1];
int foo(int x) { return ext(x) + tab[x & 3] + gv + zero[0] + *pg + *pe + pro[0]; }
''',
    # several functions, a jump table, recursion, a static local, main
    "funcs.c": r'''
int putchar(int);
static int depth;
int fact(int n) { depth++; return n < 2 ? 1 : n * fact(n - 1); }
int sel(int k) {
    switch (k) { case 0: return 11; case 1: return 22; case 2: return 35; case 3: return 41;
                 case 4: return 58; case 5: return 63; case 6: return 77; default: return -1; }
}
int main(void) { static int calls; calls++; putchar('0' + (fact(3) + sel(calls) + depth) % 10); putchar(10); return 0; }
''',
    # weak symbols, aliases, hidden visibility, constructor, a named section, thread-local data
    "weak.c": r'''
__attribute__((weak)) int maybe(int x) { return x + 1; }
extern int missing(int) __attribute__((weak));
__attribute__((visibility("hidden"))) int hid = 5;
__attribute__((section("mysec"))) int insec[2] = {0x11223344, 0x55667788};
static int counter;
__attribute__((constructor)) static void init(void) { counter = 42; }
__thread int tls_i = 9; __thread int tls_z;
int use(void) { return maybe(counter) + (missing ? missing(1) : 0) + hid + insec[1] + tls_i + tls_z; }
''',
    # nothing at all: every content section is empty
    "empty.c": "/* empty translation unit */\n",
    # mergeable strings, a big bss array, a tentative definition
    "strings.c": r'''
int common_var;
char big[70000];
const char *names[] = {"alpha", "beta", "gamma", "alpha", ""};
const char *pick(int i) { return names[i & 3] + (big[i & 0xffff] & 1) + (common_var & 1); }
''',
}
HAS_MAIN = ("hello.c", "funcs.c")

# 300 imported functions (more than the 256 stubs one libimp region holds); only built as x86 shared objects and objects
MANY_IMPORTS = 300
EXTRA_SOURCES = {
    "many.c": "".join("extern int imp%03d(int);\n" % k for k in range(MANY_IMPORTS)) +
              "int callall(int x) {\n" + "".join("    x += imp%03d(x);\n" % k for k in range(MANY_IMPORTS)) + "    return x;\n}\n",
}

# text + read-only data of more than one 4K page, followed by a writable segment that starts in the last of those pages
# when linked with -z noseparate-code and a small max-page-size (or with an explicit -Ttext/-Tdata layout)
_PAGED = ("const unsigned char blob[5000] = {%s};\n" % ", ".join(str((i * 37 + 11) % 251) for i in range(5000)) +
          "int counter = 5; int table[64] = {1, 2, 3}; int zeroes[300];\n"
          "int pick(int i) { return blob[i % 5000] + table[i & 63] + zeroes[i % 300] + counter++; }\n")
EXTRA_SOURCES["paged.c"] = _PAGED + "int main(int argc, char **argv) { return pick(argc); }\n"
EXTRA_SOURCES["pagedfs.c"] = _PAGED + "void _start(void) { for (;;) pick(counter); }\n"

CLANG_TARGETS = ("armv7", "armeb", "aarch64", "aarch64_be", "mips", "mipsel", "mips64", "powerpc", "powerpc64",
                 "powerpc64le", "riscv64", "i386", "s390x")


def _stem(src):
    return src[:-2]


def plan():
    """List of (output name, variant, argv, [input files that must exist])."""
    jobs = []
    libc_a = any(os.path.exists(p) for p in ("/usr/lib/x86_64-linux-gnu/libc.a", "/usr/lib64/libc.a", "/usr/lib/libc.a"))
    for src in sorted(SOURCES):
        st = _stem(src)
        if src in HAS_MAIN:
            jobs.append((st + ".gcc.exec", "gcc-exec", ["gcc", "-O1", "-no-pie", "-o", st + ".gcc.exec", src], []))
            jobs.append((st + ".gcc.pie", "gcc-pie", ["gcc", "-O1", "-pie", "-fPIE", "-o", st + ".gcc.pie", src], []))
            if libc_a:
                jobs.append((st + ".gcc.static", "gcc-static", ["gcc", "-O1", "-static", "-o", st + ".gcc.static", src], []))
        jobs.append((st + ".gcc.so", "gcc-shared", ["gcc", "-O1", "-shared", "-fPIC", "-o", st + ".gcc.so", src], []))
        jobs.append((st + ".gcc.o", "gcc-obj", ["gcc", "-O1", "-c", "-o", st + ".gcc.o", src], []))
        jobs.append((st + ".gccg.o", "gcc-obj-debug", ["gcc", "-O0", "-g", "-ffunction-sections", "-fdata-sections",
                                                     "-fdebug-prefix-map=@TMP@=.", "-c", "-o", st + ".gccg.o", src], []))
        jobs.append((st + ".m32.o", "gcc-m32-obj", ["gcc", "-m32", "-O1", "-fPIC", "-c", "-o", st + ".m32.o", src], []))
        jobs.append((st + ".m32.so", "ld-i386-shared", ["ld", "-m", "elf_i386", "-shared", "-o", st + ".m32.so", st + ".m32.o"],
                     [st + ".m32.o"]))
        for t in CLANG_TARGETS:
            out = "%s.%s.o" % (st, t)
            jobs.append((out, "clang-" + t, ["clang", "--target=%s-linux-gnu" % t, "-O1", "-c", "-o", out, src], []))
    for ps in ("0x200", "0x400"):
        z = ["-Wl,-z,noseparate-code", "-Wl,-z,max-page-size=" + ps]
        jobs.append(("paged.%s.exec" % ps, "gcc-exec-shared-page", ["gcc", "-O1", "-no-pie"] + z + ["-o", "paged.%s.exec" % ps, "paged.c"], []))
        jobs.append(("paged.%s.so" % ps, "gcc-shared-shared-page", ["gcc", "-O1", "-shared", "-fPIC"] + z + ["-o", "paged.%s.so" % ps, "paged.c"], []))
    jobs.append(("paged.m32.o", "gcc-m32-obj", ["gcc", "-m32", "-O1", "-fPIC", "-c", "-o", "paged.m32.o", "paged.c"], []))
    jobs.append(("paged.m32.so", "ld-i386-shared-shared-page",
                 ["ld", "-m", "elf_i386", "-shared", "-z", "noseparate-code", "-z", "max-page-size=0x200", "-o", "paged.m32.so", "paged.m32.o"],
                 ["paged.m32.o"]))
    jobs.append(("pagedfs.T.exec", "gcc-static-Ttext-Tdata",
                 ["gcc", "-O1", "-nostdlib", "-static", "-fno-pic", "-no-pie", "-Wl,-z,noseparate-code", "-Wl,-z,max-page-size=0x200",
                  "-Wl,-Ttext=0x10000", "-Wl,-Tdata=0x11a40", "-o", "pagedfs.T.exec", "pagedfs.c"], []))
    jobs.append(("pagedfs.m32.o", "gcc-m32-obj", ["gcc", "-m32", "-O1", "-fno-pic", "-c", "-o", "pagedfs.m32.o", "pagedfs.c"], []))
    jobs.append(("pagedfs.m32T.exec", "ld-i386-Ttext-Tdata",
                 ["ld", "-m", "elf_i386", "-z", "noseparate-code", "-z", "max-page-size=0x200", "-Ttext=0x10000", "-Tdata=0x11a40",
                  "-o", "pagedfs.m32T.exec", "pagedfs.m32.o"], ["pagedfs.m32.o"]))
    for src in ("many.c",):
        st = _stem(src)
        jobs.append((st + ".gcc.so", "gcc-shared", ["gcc", "-O1", "-shared", "-fPIC", "-o", st + ".gcc.so", src], []))
        jobs.append((st + ".gcc.o", "gcc-obj", ["gcc", "-O1", "-c", "-o", st + ".gcc.o", src], []))
        jobs.append((st + ".m32.o", "gcc-m32-obj", ["gcc", "-m32", "-O1", "-fPIC", "-c", "-o", st + ".m32.o", src], []))
        jobs.append((st + ".m32.so", "ld-i386-shared", ["ld", "-m", "elf_i386", "-shared", "-o", st + ".m32.so", st + ".m32.o"],
                     [st + ".m32.o"]))
    return jobs


def _tool_versions():
    out = []
    for tool in ("gcc", "clang", "ld"):
        try:
            p = subprocess.run([tool, "--version"], stdout=subprocess.PIPE, stderr=subprocess.STDOUT, timeout=30)
            out.append(p.stdout.decode(errors="replace").splitlines()[0] if p.stdout else "")
        except Exception as e:
            out.append("%s: %r" % (tool, e))
    return out


def corpus_key():
    h = hashlib.sha256()
    h.update(json.dumps(SOURCES, sort_keys=True).encode())
    h.update(json.dumps(EXTRA_SOURCES, sort_keys=True).encode())
    h.update(json.dumps([j[:3] for j in plan()]).encode())
    h.update(json.dumps(_tool_versions()).encode())
    return h.hexdigest()[:20]


def _build(dest):
    """Compile everything in a fresh temp dir and move the results to dest (atomically)."""
    tmp = tempfile.mkdtemp(prefix="verif_elfcorpus_")
    try:
        for name, text in list(SOURCES.items()) + list(EXTRA_SOURCES.items()):
            with open(os.path.join(tmp, name), "w") as fd:
                fd.write(text)
        env = dict(os.environ)
        env["LC_ALL"] = "C"
        env["SOURCE_DATE_EPOCH"] = "0"
        def job(j):
            out, variant, argv, needs = j
            argv = [a.replace("@TMP@", tmp) for a in argv]
            rec = {"name": out, "variant": variant, "cmd": " ".join(j[2]), "produced": False}
            if all(os.path.exists(os.path.join(tmp, n)) for n in needs):
                try:
                    p = subprocess.run(argv, cwd=tmp, env=env, stdout=subprocess.PIPE, stderr=subprocess.STDOUT, timeout=300)
                    rec["rc"] = p.returncode
                    if p.returncode == 0 and os.path.exists(os.path.join(tmp, out)):
                        rec["produced"] = True
                    else:
                        rec["why"] = p.stdout.decode(errors="replace")[-300:]
                except Exception as e:
                    rec["why"] = repr(e)
            else:
                rec["why"] = "input not produced"
            return rec

        jobs = plan()
        first = [j for j in jobs if not j[3]]
        second = [j for j in jobs if j[3]]
        with ThreadPoolExecutor(max_workers=8) as ex:
            recs = list(ex.map(job, first)) + list(ex.map(job, second))
        by_name = {r["name"]: r for r in recs}
        manifest = [by_name[j[0]] for j in jobs]
        os.makedirs(CACHE, exist_ok=True)
        stage = tempfile.mkdtemp(prefix=".stage_", dir=CACHE)
        try:
            for rec in manifest:
                if rec["produced"]:
                    shutil.copyfile(os.path.join(tmp, rec["name"]), os.path.join(stage, rec["name"]))
                    with open(os.path.join(stage, rec["name"]), "rb") as fd:
                        rec["sha256"] = hashlib.sha256(fd.read()).hexdigest()
            with open(os.path.join(stage, "manifest.json"), "w") as fd:
                json.dump(manifest, fd, indent=1, sort_keys=True)
            try:
                os.rename(stage, dest)
            except OSError:
                # somebody else finished first: theirs is as good as ours
                shutil.rmtree(stage, ignore_errors=True)
        finally:
            if os.path.exists(stage):
                shutil.rmtree(stage, ignore_errors=True)
    finally:
        shutil.rmtree(tmp, ignore_errors=True)


def _valid(dest):
    mf = os.path.join(dest, "manifest.json")
    if not os.path.exists(mf):
        return False
    try:
        with open(mf) as fd:
            manifest = json.load(fd)
    except ValueError:
        return False
    return all(os.path.exists(os.path.join(dest, r["name"])) for r in manifest if r["produced"])


def ensure():
    """Return (directory, manifest) of the corpus, building it when the cache is absent."""
    dest = os.path.join(CACHE, corpus_key())
    if not _valid(dest):
        if os.path.exists(dest):
            shutil.rmtree(dest, ignore_errors=True)
        _build(dest)
    if not _valid(dest):
        raise RuntimeError("ELF corpus could not be built in %s" % dest)
    with open(os.path.join(dest, "manifest.json")) as fd:
        return dest, json.load(fd)


_LOADED = None


def load():
    """Return (entries, manifest); entries = [{"name", "variant", "data", "sha256"}] sorted by name."""
    global _LOADED
    if _LOADED is None:
        _LOADED = _load()
    return _LOADED


def _load():
    dest, manifest = ensure()
    out = []
    for rec in sorted(manifest, key=lambda r: r["name"]):
        if not rec["produced"]:
            continue
        with open(os.path.join(dest, rec["name"]), "rb") as fd:
            data = fd.read()
        out.append({"name": rec["name"], "variant": rec["variant"], "data": data, "sha256": rec.get("sha256")})
    return out, manifest


def get(name):
    entries, _ = load()
    for e in entries:
        if e["name"] == name:
            return e
    raise KeyError(name)


# ---------------------------------------------------------------------------------------------------------------
# independent, struct-only reader (reference for header tables; never imports miasm)

import struct as _struct

EHDR_FIELDS = ("type", "machine", "version", "entry", "phoff", "shoff", "flags", "ehsize", "phentsize", "phnum",
               "shentsize", "shnum", "shstrndx")
SHDR_FIELDS = ("name", "type", "flags", "addr", "offset", "size", "link", "info", "addralign", "entsize")
PHDR_FIELDS = ("type", "flags", "offset", "vaddr", "paddr", "filesz", "memsz", "align")


class Layout(object):
    """Where every header field lives, for one (class, endianness)."""

    def __init__(self, data):
        if data[:4] != b"\x7fELF":
            raise ValueError("not ELF")
        self.bits = {1: 32, 2: 64}[data[4]]
        self.end = {1: "<", 2: ">"}[data[5]]
        if self.bits == 32:
            self.ehdr_fmt = "HHIIIIIHHHHHH"
            self.shdr_fmt = "IIIIIIIIII"
            self.phdr_fmt = "IIIIIIII"
            self.phdr_order = ("type", "offset", "vaddr", "paddr", "filesz", "memsz", "flags", "align")
        else:
            self.ehdr_fmt = "HHIQQQIHHHHHH"
            self.shdr_fmt = "IIQQQQIIQQ"
            self.phdr_fmt = "IIQQQQQQ"
            self.phdr_order = ("type", "flags", "offset", "vaddr", "paddr", "filesz", "memsz", "align")

    def _fields(self, fmt, names, base):
        out = {}
        off = base
        for c, n in zip(fmt, names):
            sz = _struct.calcsize(c)
            out[n] = (off, sz)
            off += sz
        return out

    def ehdr_fields(self):
        return self._fields(self.ehdr_fmt, EHDR_FIELDS, 16)

    def shdr_fields(self, base):
        return self._fields(self.shdr_fmt, SHDR_FIELDS, base)

    def phdr_fields(self, base):
        return self._fields(self.phdr_fmt, self.phdr_order, base)

    def read(self, data, off, sz):
        raw = data[off:off + sz]
        if len(raw) < sz:
            raw = raw + b"\x00" * (sz - len(raw))
        return int.from_bytes(raw, "little" if self.end == "<" else "big")

    def write(self, data, off, sz, val):
        b = bytearray(data)
        b[off:off + sz] = (val % (1 << (8 * sz))).to_bytes(sz, "little" if self.end == "<" else "big")
        return bytes(b)


def read_tables(data):
    """Independent reading: {"ehdr": {...}, "shdrs": [{...}], "phdrs": [{...}]} (raw integers only)."""
    lay = Layout(data)
    eh = {n: lay.read(data, o, s) for n, (o, s) in lay.ehdr_fields().items()}
    shdrs = []
    if eh["shoff"]:
        for i in range(eh["shnum"]):
            f = lay.shdr_fields(eh["shoff"] + i * eh["shentsize"])
            shdrs.append({n: lay.read(data, o, s) for n, (o, s) in f.items()})
    phdrs = []
    for i in range(eh["phnum"]):
        f = lay.phdr_fields(eh["phoff"] + i * eh["phentsize"])
        phdrs.append({n: lay.read(data, o, s) for n, (o, s) in f.items()})
    return {"ehdr": eh, "shdrs": shdrs, "phdrs": phdrs, "bits": lay.bits, "end": lay.end}


if __name__ == "__main__":
    import sys
    d, m = ensure()
    print("%s: %d of %d objects produced" % (d, sum(1 for r in m if r["produced"]), len(m)))
