"""Deterministic, index-addressable lattices of well-sized miasm expressions (section 3.2 of DESIGN.md).

Everything here is a pure function of its parameters: the same call yields the same list in the
same order in every process (no randomness, no set/dict-order dependence), so a case is addressed
by (family, parameters, index).

Families
  leaves(w)              identifiers x_w, y_w and the constant alphabet C(w)
  depth1(w)              every node kind applied to leaves
  depth2_spine(w)        every node kind with exactly one depth-1 child (each position) and sibling leaves
  rule families          shapes read off the rewrite rules (CC over FLAG pairs, ext/cmp/const, compose/mask, ...)
"""
import itertools

NARY = ["+", "*", "^", "&", "|"]
NARY3 = ["+", "^", "&", "|"]
SHIFTS = ["<<", ">>", "a>>", "<<<", ">>>"]
DIVS = ["/", "%", "udiv", "umod", "sdiv", "smod"]
CNT = ["cntleadzeros", "cnttrailzeros"]
CMPS = ["==", "<u", "<s", "<=u", "<=s"]
FLAG1 = ["FLAG_EQ"]
FLAG2 = ["FLAG_EQ_AND", "FLAG_SIGN_SUB", "FLAG_EQ_CMP", "FLAG_ADD_CF", "FLAG_SUB_CF", "FLAG_ADD_OF", "FLAG_SUB_OF"]
FLAG3 = ["FLAG_EQ_ADDWC", "FLAG_ADDWC_OF", "FLAG_SUBWC_OF", "FLAG_ADDWC_CF", "FLAG_SUBWC_CF", "FLAG_SIGN_ADDWC",
         "FLAG_SIGN_SUBWC", "FLAG_EQ_SUBWC"]
CC = [("CC_U<=", 2), ("CC_U>=", 1), ("CC_S<", 2), ("CC_S>", 3), ("CC_S<=", 3), ("CC_S>=", 2), ("CC_U>", 2),
      ("CC_U<", 1), ("CC_NEG", 1), ("CC_EQ", 1), ("CC_NE", 1), ("CC_POS", 1)]


def _E():
    import miasm.expression.expression as m
    return m


def consts(w, rich=True):
    """Constant alphabet C(w): every value for w <= 3, boundary values above."""
    if w <= 3:
        return list(range(1 << w))
    m = (1 << w) - 1
    s = {0, 1, 2, 3, w - 1, w, (1 << (w - 1)) - 1, 1 << (w - 1), (1 << (w - 1)) + 1, m - 1, m}
    if rich:
        s |= {w + 1, 1 << (w // 2), (1 << (w // 2)) - 1, 0x55555555555555555555555555555555 & m}
    return sorted(x & m for x in s)


class Gen(object):
    """Typed generator over a width set."""

    def __init__(self, widths, nids=2, rich_consts=True, sib_consts=None):
        self.widths = sorted(widths)
        self.nids = nids
        self.rich = rich_consts
        self.sib_consts = sib_consts
        self._memo = {}

    # ---- leaves
    def ids(self, w):
        E = _E()
        return [E.ExprId("%s%d" % (n, w), w) for n in "xyz"[:self.nids]]

    def ints(self, w):
        E = _E()
        return [E.ExprInt(v, w) for v in consts(w, self.rich)]

    def leaves(self, w):
        return self.ids(w) + self.ints(w)

    def sib_leaves(self, w):
        """Leaves used next to a deep child (reduced alphabet to keep the product finite and small)."""
        E = _E()
        if self.sib_consts is None:
            return self.leaves(w)
        m = (1 << w) - 1
        vals = sorted(set(v & m for v in self.sib_consts(w)))
        return self.ids(w) + [E.ExprInt(v, w) for v in vals]

    # ---- node specs: (tag, child_widths, builder)
    def specs(self, w):
        key = ("specs", w)
        if key in self._memo:
            return self._memo[key]
        E = _E()
        W = self.widths
        out = []
        for op in NARY:
            out.append((op, (w, w), lambda c, op=op: E.ExprOp(op, *c), True))
        out.append(("neg", (w,), lambda c: E.ExprOp("-", c[0]), False))
        for op in SHIFTS + DIVS:
            out.append((op, (w, w), lambda c, op=op: E.ExprOp(op, *c), False))
        for op in CNT:
            out.append((op, (w,), lambda c, op=op: E.ExprOp(op, c[0]), False))
        for w2 in W:
            if w2 < w:
                out.append(("zeroExt", (w2,), lambda c, w=w: c[0].zeroExtend(w), False))
                out.append(("signExt", (w2,), lambda c, w=w: c[0].signExtend(w), False))
            if w2 > w:
                for s in range(0, w2 - w + 1):
                    out.append(("slice%d" % s, (w2,), lambda c, s=s, w=w: E.ExprSlice(c[0], s, s + w), False))
        for w1 in range(1, w):
            if w1 in W and (w - w1) in W:
                out.append(("compose2", (w1, w - w1), lambda c: E.ExprCompose(*c), False))
        for w1 in range(1, w):
            for w2 in range(1, w - w1):
                w3 = w - w1 - w2
                if w1 in W and w2 in W and w3 in W:
                    out.append(("compose3", (w1, w2, w3), lambda c: E.ExprCompose(*c), False))
        for wc in sorted(set([1, w]) & set(W)):
            out.append(("cond%d" % wc, (wc, w, w), lambda c: E.ExprCond(*c), False))
        if w == 1:
            for wa in W:
                for op in CMPS:
                    out.append((op, (wa, wa), lambda c, op=op: E.ExprOp(op, *c), False))
                out.append(("parity", (wa,), lambda c: E.ExprOp("parity", c[0]), False))
                for op in FLAG1:
                    out.append((op, (wa,), lambda c, op=op: E.ExprOp(op, c[0]), False))
                for op in FLAG2:
                    out.append((op, (wa, wa), lambda c, op=op: E.ExprOp(op, *c), False))
                for op in FLAG3:
                    out.append((op, (wa, wa, 1), lambda c, op=op: E.ExprOp(op, *c), False))
            for op, ar in CC:
                out.append((op, (1,) * ar, lambda c, op=op: E.ExprOp(op, *c), False))
        self._memo[key] = out
        return out

    def depth1(self, w):
        key = ("d1", w)
        if key in self._memo:
            return self._memo[key]
        out = []
        for tag, cws, build, comm in self.specs(w):
            pools = [self.leaves(cw) for cw in cws]
            for combo in itertools.product(*[range(len(p)) for p in pools]):
                if comm and combo[0] > combo[1]:
                    continue
                ch = [pools[i][j] for i, j in enumerate(combo)]
                if all(c.is_int() for c in ch):
                    continue  # pure constants: the business of C03
                out.append(build(ch))
        # 3-ary associative ops over leaves (rules inspect args[-1] / pairs among several args)
        lv = self.leaves(w)
        for op in NARY3:
            for i, j, k in itertools.combinations_with_replacement(range(len(lv)), 3):
                ch = [lv[i], lv[j], lv[k]]
                if sum(1 for c in ch if c.is_int()) >= 2:
                    continue
                out.append(_E().ExprOp(op, *ch))
        self._memo[key] = out
        return out

    def depth1_core(self, w):
        """Depth-1 nodes whose leaves are identifiers only, plus one constant-carrying instance per spec."""
        key = ("d1core", w)
        if key in self._memo:
            return self._memo[key]
        E = _E()
        out = []
        for tag, cws, build, comm in self.specs(w):
            pools = [self.ids(cw) + [E.ExprInt(1, cw), E.ExprInt((1 << cw) - 1, cw)] for cw in cws]
            for combo in itertools.product(*[range(len(p)) for p in pools]):
                if comm and combo[0] > combo[1]:
                    continue
                ch = [pools[i][j] for i, j in enumerate(combo)]
                if sum(1 for c in ch if c.is_int()) > 1 or all(c.is_int() for c in ch):
                    continue
                out.append(build(ch))
        self._memo[key] = out
        return out

    def depth2_spine(self, w, deep_pool=None, k=0, K=1):
        """Every spec with exactly one deep child (each position); siblings range over sib_leaves.
        (k, K): only the specs whose index is k modulo K (sharding without re-enumerating)."""
        deep_pool = deep_pool or self.depth1
        for si, (tag, cws, build, comm) in enumerate(self.specs(w)):
            if si % K != k:
                continue
            for pos in range(len(cws)):
                deep = deep_pool(cws[pos])
                sibs = [self.sib_leaves(cw) for i, cw in enumerate(cws) if i != pos]
                for d in deep:
                    for sc in itertools.product(*sibs):
                        ch = list(sc)
                        ch.insert(pos, d)
                        yield build(ch)

    def depth2_pairs(self, w, k=0, K=1):
        """Binary specs with both children from the depth-1 core pools."""
        for si, (tag, cws, build, comm) in enumerate(self.specs(w)):
            if len(cws) != 2 or si % K != k:
                continue
            pa, pb = self.depth1_core(cws[0]), self.depth1_core(cws[1])
            for i, a in enumerate(pa):
                for j, b in enumerate(pb):
                    if comm and i > j:
                        continue
                    yield build([a, b])


# --------------------------------------------------------------------- rule-directed families

def fam_cc_flags(widths, nids=2):
    """CC_op(FLAG_a(A,B), FLAG_b(A',B') ...) with the same and with different operand pairs; A,B leaves."""
    E = _E()
    g = Gen(widths, nids=nids, rich_consts=False)
    flags_all = FLAG1 + FLAG2
    for w in widths:
        lv = g.leaves(w)
        pairs = [(a, b) for a in lv for b in lv if not (a.is_int() and b.is_int())]
        id_pairs = [(a, b) for a in g.ids(w) for b in g.ids(w)]
        for op, ar in CC:
            for fl in itertools.product(flags_all, repeat=ar):
                # same operand pair for every flag
                for a, b in pairs:
                    args = [E.ExprOp(f, a) if f in FLAG1 else E.ExprOp(f, a, b) for f in fl]
                    yield E.ExprOp(op, *args)
                # different operand pairs (rule must not fire, or must stay correct)
                if ar >= 2:
                    for (a, b) in id_pairs[:2]:
                        for (c, d) in id_pairs[1:3]:
                            prs = [(a, b), (c, d), (a, b)]
                            args = [E.ExprOp(f, prs[i][0]) if f in FLAG1 else E.ExprOp(f, *prs[i]) for i, f in enumerate(fl)]
                            yield E.ExprOp(op, *args)
            # the shapes with a literal 0 overflow flag: CC_S>(SIGN_SUB(a,b), 0, EQ_CMP(a,b)) etc.
            if ar == 3:
                for a, b in pairs:
                    for z in (0, 1):
                        yield E.ExprOp(op, E.ExprOp("FLAG_SIGN_SUB", a, b), E.ExprInt(z, 1), E.ExprOp("FLAG_EQ_CMP", a, b))
            if ar == 2:
                for a, b in pairs:
                    for z in (0, 1):
                        yield E.ExprOp(op, E.ExprOp("FLAG_SIGN_SUB", a, b), E.ExprInt(z, 1))
        # FLAG_*WC(A, B, FLAG_SUB_CF(C, D))
        for f in FLAG3:
            for a, b in id_pairs:
                for c, d in pairs[:40]:
                    yield E.ExprOp(f, a, b, E.ExprOp("FLAG_SUB_CF", c, d))
        # conditions on flags: FLAG?A:B, CC(bit)?A:B
        for a, b in pairs:
            for f in FLAG2:
                yield E.ExprCond(E.ExprOp(f, a, b), E.ExprId("p%d" % w, w), E.ExprId("q%d" % w, w))
        bit = E.ExprId("c1", 1)
        for op in ("CC_U<", "CC_U>=", "CC_NEG", "CC_EQ", "CC_NE", "CC_POS"):
            yield E.ExprCond(E.ExprOp(op, bit), E.ExprId("p%d" % w, w), E.ExprId("q%d" % w, w))


# operator names the expression constructor / the architectures know but that have no explicit lowering
FLAG_EXTRA = [("CC_sOVR", 1, "cc"), ("CC_sNOOVR", 1, "cc"), ("FLAG_SIGN_ADD", 2, "flag")]


def fam_flag_names(widths):
    """Every FLAG_* / CC_* operator name (the lowered ones and FLAG_EXTRA) on all-constant, all-identifier and mixed
    operand tuples, bare and as the condition of a conditional: constant folding of flags must terminate and be
    idempotent for every operator name, not only for the ones a lowering exists for."""
    E = _E()
    ops = [(n, 1, "flag") for n in FLAG1] + [(n, 2, "flag") for n in FLAG2] + [(n, 3, "flag3") for n in FLAG3]
    ops += [(n, ar, "cc") for n, ar in CC] + FLAG_EXTRA
    for w in widths:
        consts = sorted(set([0, 1, (1 << w) - 1, 1 << (w - 1), (1 << (w - 1)) - 1]))
        wl = [E.ExprInt(c, w) for c in consts] + [E.ExprId("a%d" % w, w), E.ExprId("b%d" % w, w)]
        bl = [E.ExprInt(0, 1), E.ExprInt(1, 1), E.ExprId("c1", 1), E.ExprId("d1", 1)]
        for name, ar, kind in ops:
            if kind == "cc":
                if w != widths[0]:
                    continue
                pools = [bl] * ar
            elif kind == "flag3":
                pools = [wl, wl, bl]
            else:
                pools = [wl] * ar
            for args in itertools.product(*pools):
                e = E.ExprOp(name, *args)
                yield e
                yield E.ExprCond(e, E.ExprId("p%d" % w, w), E.ExprId("q%d" % w, w))


def fam_const_ops(widths):
    """Every binary / unary / comparison operator on ALL pairs of constants of a small width (complete value product),
    bare, under a conditional (as condition and as arm) and added to an identifier: constant folding is a rewrite like
    any other and must preserve the value (sign mixes of sdiv/smod, shift counts >= width, ...)."""
    E = _E()
    for w in widths:
        vals = list(range(1 << w)) if w <= 3 else sorted(set([0, 1, 2, 3, (1 << (w - 1)) - 1, 1 << (w - 1), (1 << (w - 1)) + 1,
                                                            (1 << w) - 3, (1 << w) - 2, (1 << w) - 1]))
        x = E.ExprId("x%d" % w, w)
        for op in NARY + ["-"] + SHIFTS + DIVS + CMPS:
            for a in vals:
                for b in vals:
                    e = E.ExprOp(op, E.ExprInt(a, w), E.ExprInt(b, w))
                    yield e
                    if e.size == w:
                        yield E.ExprOp("+", x, e)
                        yield E.ExprCond(e, x, E.ExprInt(1, w))
                    else:
                        yield E.ExprCond(e, x, E.ExprInt(1, w))
        for op in ["-", "parity"] + CNT:
            for a in vals:
                yield E.ExprOp(op, E.ExprInt(a, w))


def fam_ext_cmp(widths, nids=1):
    """Comparisons / conditions over extensions and constants: ext(X) cmp cst, ext(X) cmp ext(Y),
    (ext(X) op cst) ? A : B, smod(ext, ext|int), slices of extensions and of ops over extensions."""
    E = _E()
    g = Gen(widths, nids=2, rich_consts=True)
    for ws in widths:
        for wb in widths:
            if wb <= ws:
                continue
            srcs = g.ids(ws) + [E.ExprOp("+", g.ids(ws)[0], E.ExprInt(1, ws))]
            allc = [E.ExprInt(v, wb) for v in (range(1 << wb) if wb <= 5 else consts(wb))]
            for x in srcs[:2]:
                for ext in ("zeroExtend", "signExtend"):
                    ex = getattr(x, ext)(wb)
                    for c in allc:
                        for op in CMPS:
                            yield E.ExprOp(op, ex, c)
                            yield E.ExprOp(op, c, ex)
                        for op in ("&", "|", "^", "+"):
                            yield E.ExprCond(E.ExprOp(op, ex, c), E.ExprId("p2", 2), E.ExprId("q2", 2))
                            yield E.ExprOp("==", E.ExprOp(op, ex, c), E.ExprInt(int(c) & 1, wb))
                            for c2 in allc[::3]:
                                yield E.ExprOp("==", E.ExprOp(op, ex, c), c2)
                            for st in range(1, wb + 1):
                                yield E.ExprSlice(E.ExprOp(op, ex, c), 0, st)
                        for op in ("smod", "sdiv", "umod", "udiv", "*"):
                            yield E.ExprOp(op, ex, c)
                            yield E.ExprOp(op, c, ex)
                    for y in g.ids(ws):
                        for ext2 in ("zeroExtend", "signExtend"):
                            ey = getattr(y, ext2)(wb)
                            for op in CMPS + ["smod", "sdiv", "+", "&"]:
                                yield E.ExprOp(op, ex, ey)
                    yield E.ExprCond(ex, E.ExprId("p2", 2), E.ExprId("q2", 2))
                    for s in range(wb):
                        for t in range(s + 1, wb + 1):
                            yield E.ExprSlice(ex, s, t)
                    # double extension
                    for wc in widths:
                        if wc > wb:
                            for ext2 in ("zeroExtend", "signExtend"):
                                yield getattr(ex, ext2)(wc)
                    # ext of cond of ints
                    cnd = E.ExprCond(g.ids(ws)[0], E.ExprInt((1 << ws) - 1, ws), E.ExprInt(1, ws))
                    yield getattr(cnd, ext)(wb)


def fam_compose(widths):
    """Compositions against constants/masks/shifts: {X,0}==cst, {X,Y}&mask, {X,Y}<<c, >>c, slices of compositions,
    {a, signext(a)[n:2n]}, {X[z:], 0}, compose of conds, compose of compose."""
    E = _E()
    g = Gen(widths, nids=2, rich_consts=True)
    for w1 in widths:
        for w2 in widths:
            w = w1 + w2
            if w > 8:
                continue
            x = E.ExprId("x%d" % w1, w1)
            y = E.ExprId("y%d" % w2, w2)
            parts = [(x, y), (x, E.ExprInt(0, w2)), (E.ExprInt(0, w1), y), (x, E.ExprInt((1 << w2) - 1, w2)),
                     (E.ExprInt(1, w1), y)]
            allc = [E.ExprInt(v, w) for v in (range(1 << w) if w <= 6 else consts(w))]
            for pa in parts:
                cp = E.ExprCompose(*pa)
                for c in allc:
                    yield E.ExprOp("==", cp, c)
                    yield E.ExprOp("&", cp, c)
                    yield E.ExprOp("|", cp, c)
                    yield E.ExprOp("^", cp, c)
                    yield E.ExprOp("<<", cp, c)
                    yield E.ExprOp(">>", cp, c)
                    yield E.ExprOp("a>>", cp, c)
                    yield E.ExprCond(E.ExprOp("&", cp, c), E.ExprInt(1, 1), E.ExprInt(0, 1))
                for s in range(w):
                    for t in range(s + 1, w + 1):
                        yield E.ExprSlice(cp, s, t)
                yield E.ExprCond(cp, E.ExprId("p2", 2), E.ExprId("q2", 2))
                for pb in parts:
                    for op in ("&", "|", "^", "+"):
                        yield E.ExprOp(op, cp, E.ExprCompose(*pb))
            if w1 == w2:
                sx = x.signExtend(2 * w1)
                yield E.ExprCompose(x, sx[w1:2 * w1])
                yield E.ExprCompose(x, x.zeroExtend(2 * w1)[w1:2 * w1])
                y1 = E.ExprId("y%d" % w1, w1)
                yield E.ExprCompose(x, y1.signExtend(2 * w1)[w1:2 * w1])
            # {X[z:], 0}
            big = E.ExprId("x%d" % w, w)
            for z in range(1, w):
                yield E.ExprCompose(big[z:], E.ExprInt(0, z))
                yield E.ExprCompose(big[z:], E.ExprInt(1, z))
                yield E.ExprCompose(big[:z], big[z:])
                yield E.ExprCompose(big[z:], big[:z])
            # conds inside compositions
            c1 = E.ExprId("c1", 1)
            yield E.ExprCompose(E.ExprCond(c1, x, E.ExprInt(0, w1)), E.ExprCond(c1, y, E.ExprInt(1, w2)))
            yield E.ExprCompose(E.ExprCond(c1, x, E.ExprInt(0, w1)), y)
            yield E.ExprCompose(E.ExprCompose(x[:1], x[1:]) if w1 > 1 else x, y)


def fam_shift_rot(widths):
    """Nested shifts / rotations with constant counts: (A op1 c1) op2 c2, ((A & m) >> s), slices of shifts."""
    E = _E()
    for w in widths:
        a = E.ExprId("x%d" % w, w)
        b = E.ExprId("y%d" % w, w)
        cs = [E.ExprInt(v, w) for v in (range(1 << w) if w <= 4 else consts(w))]
        for op1 in SHIFTS:
            for op2 in SHIFTS:
                for c1 in cs:
                    for c2 in cs:
                        yield E.ExprOp(op2, E.ExprOp(op1, a, c1), c2)
                for c2 in cs[:4]:
                    yield E.ExprOp(op2, E.ExprOp(op1, a, b), c2)
                yield E.ExprOp(op2, E.ExprOp(op1, a, b), b)
                yield E.ExprOp(op2, E.ExprOp(op1, a, b), E.ExprOp("+", b, E.ExprInt(1, w)))
        for m in cs:
            for s in cs:
                yield E.ExprOp(">>", E.ExprOp("&", a, m), s)
                yield E.ExprOp("<<", E.ExprOp("&", a, m), s)
                yield E.ExprOp("&", E.ExprOp(">>", a, s), m)
        for op1 in ("<<", ">>", "a>>"):
            for c1 in cs:
                for s in range(w):
                    for t in range(s + 1, w + 1):
                        yield E.ExprSlice(E.ExprOp(op1, a, c1), s, t)
        for m in cs:
            for s in range(w):
                for t in range(s + 1, w + 1):
                    yield E.ExprSlice(E.ExprOp("&", a, m), s, t)
                    yield E.ExprSlice(E.ExprOp("*", a, m), s, t)
                    yield E.ExprSlice(E.ExprCond(b, m, E.ExprInt(1, w)), s, t)


def fam_arith(widths):
    """Additive / multiplicative identities: X + X*c, X + (X<<c), -(X*c), X*c*(-Y), A+B == A, X+c1 == c2,
    X^c1 == c2, (a+b)?X:Y, conditions on cond-of-ints, x?a:b op x?c:d."""
    E = _E()
    for w in widths:
        x = E.ExprId("x%d" % w, w)
        y = E.ExprId("y%d" % w, w)
        z = E.ExprId("z%d" % w, w)
        p, q = E.ExprId("p2", 2), E.ExprId("q2", 2)
        cs = [E.ExprInt(v, w) for v in (range(1 << w) if w <= 4 else consts(w))]
        for c in cs:
            yield E.ExprOp("+", x, E.ExprOp("*", x, c))
            yield E.ExprOp("+", x, E.ExprOp("<<", x, c))
            yield E.ExprOp("+", E.ExprOp("*", x, c), E.ExprOp("-", x))
            yield E.ExprOp("+", x, E.ExprOp("-", E.ExprOp("<<", x, c)))
            yield E.ExprOp("+", E.ExprOp("*", E.ExprOp("+", x, y), c), x, y)
            yield E.ExprOp("-", E.ExprOp("*", x, y, c))
            yield E.ExprOp("*", E.ExprOp("-", x), y, c)
            yield E.ExprOp("*", E.ExprOp("-", x), E.ExprOp("-", y), c)
            yield E.ExprOp("*", x, c)
            yield E.ExprOp("-", E.ExprCond(y, c, E.ExprInt(1, w)))
            yield E.ExprOp("|", x, c, y)
            yield E.ExprOp("&", x, c, y)
            for c2 in cs:
                yield E.ExprOp("==", E.ExprOp("+", x, c), c2)
                yield E.ExprOp("==", E.ExprOp("^", x, c), c2)
                yield E.ExprOp("==", c2, E.ExprOp("+", x, c))
                yield E.ExprOp("==", E.ExprOp("+", x, y, c), c2)
                yield E.ExprOp("==", E.ExprOp("&", x, c), c2)
                yield E.ExprCond(E.ExprOp("==", E.ExprOp("&", x, c), c2), p, q)
                yield E.ExprCond(E.ExprCond(x, c, c2), p, q)
                yield E.ExprOp("+", E.ExprCond(y, c, c2), E.ExprCond(y, c2, c))
                yield E.ExprOp("+", E.ExprCond(y, c, c2), x)
                yield E.ExprOp("*", E.ExprCond(y, c, c2), E.ExprCond(z, c2, c))
                yield E.ExprCond(E.ExprOp("|", x, c), c2, c)
                for op in ("<u", "<s", "<=u", "<=s"):
                    yield E.ExprCond(E.ExprOp(op, c, x), c2, c)
                    yield E.ExprCond(E.ExprOp(op, x, c), E.ExprInt(1, 1), E.ExprInt(0, 1))
            yield E.ExprCond(E.ExprOp("&", x, c), p, q)
            yield E.ExprCond(E.ExprOp("&", x, y, c), p, q)
            yield E.ExprOp("<=u", x, c)
            yield E.ExprOp("FLAG_SUB_CF", c, x)
            yield E.ExprOp("FLAG_SUB_CF", x, c)
        for op in ("+", "^"):
            yield E.ExprOp("==", E.ExprOp(op, x, y), x)
            yield E.ExprOp("==", x, E.ExprOp(op, x, y))
            yield E.ExprOp("==", E.ExprOp(op, x, y), E.ExprOp(op, x, z))
            yield E.ExprOp("==", E.ExprOp(op, x, y, z), E.ExprOp(op, x, y))
            yield E.ExprOp("==", E.ExprOp(op, x, y), E.ExprOp(op, x, y, z))
            yield E.ExprOp("==", E.ExprOp(op, x, y), E.ExprOp(op, y, x))
            yield E.ExprCond(E.ExprOp(op, x, y), p, q)
            yield E.ExprCond(E.ExprOp(op, x, y, z), p, q)
        yield E.ExprCond(E.ExprOp("-", x), p, q)
        yield E.ExprCond(E.ExprOp("==", x, E.ExprInt(0, w)), p, q)
        yield E.ExprCond(x, E.ExprCond(x, p, q), q)
        yield E.ExprCond(x, p, E.ExprCond(x, p, q))
        yield E.ExprOp("+", x, E.ExprOp("-", x))
        yield E.ExprOp("+", x, y, E.ExprOp("-", x))
        yield E.ExprOp("^", x, y, x)
        yield E.ExprOp("-", E.ExprOp("-", x))
        yield E.ExprOp("-", E.ExprOp("+", x, y))
        yield E.ExprOp("-", x, y)


def fam_mem(ptr_widths=(8, 16), data_widths=(8, 16, 32)):
    """Memory reads: pointer width x data width, slices of reads, compositions of adjacent reads, conditional pointers."""
    E = _E()
    for pw in ptr_widths:
        p = E.ExprId("p%d" % pw, pw)
        q = E.ExprId("q%d" % pw, pw)
        c1 = E.ExprId("c1", 1)
        for dw in data_widths:
            m = E.ExprMem(p, dw)
            yield m
            for st in range(0, dw + 1, 4):
                for sp in range(st + 4, dw + 1, 4):
                    yield E.ExprSlice(m, st, sp)
            for k in (1, 2, dw // 8, (1 << pw) - 1):
                yield E.ExprMem(E.ExprOp("+", p, E.ExprInt(k, pw)), dw)
                for dw2 in data_widths:
                    yield E.ExprCompose(m, E.ExprMem(E.ExprOp("+", p, E.ExprInt(k, pw)), dw2))
                    yield E.ExprCompose(E.ExprMem(E.ExprOp("+", p, E.ExprInt(k, pw)), dw2), m)
            yield E.ExprMem(E.ExprCond(c1, p, q), dw)
            yield E.ExprMem(E.ExprCond(q, p, E.ExprInt(1, pw)), dw)
            yield E.ExprOp("+", m, E.ExprMem(q, dw))
            yield E.ExprOp("==", m, E.ExprInt(0, dw))
            yield E.ExprCond(m, p, q)
            yield E.ExprMem(E.ExprMem(p, pw), dw)
            yield m.zeroExtend(dw * 2)[:dw]
            yield E.ExprCompose(m[:8], m[8:dw]) if dw > 8 else m
            yield E.ExprOp("&", m, E.ExprInt(0xFF, dw))
            yield E.ExprOp(">>", m, E.ExprInt(8, dw))


def fam_wide(widths=(31, 32, 33, 63, 64, 65, 127, 128)):
    """Boundary-constant families at machine widths (values are boundary-only here)."""
    E = _E()
    from mc import refsem
    for w in widths:
        x = E.ExprId("x%d" % w, w)
        y = E.ExprId("y%d" % w, w)
        cs = [E.ExprInt(v, w) for v in refsem.boundary(w)]
        for c in cs:
            for op in NARY + SHIFTS + DIVS:
                yield E.ExprOp(op, x, c)
                yield E.ExprOp(op, c, x)
            for op in CMPS:
                yield E.ExprOp(op, x, c)
                yield E.ExprOp(op, E.ExprOp("+", x, c), c)
            yield E.ExprOp("==", E.ExprOp("+", x, c), E.ExprInt(1, w))
            yield E.ExprCond(E.ExprOp("&", x, c), y, x)
            yield E.ExprOp("+", x, E.ExprOp("*", x, c))
            yield E.ExprOp(">>", E.ExprOp("&", x, c), E.ExprInt(w // 2, w))
        half = w // 2
        if half * 2 == w:
            h = E.ExprId("h%d" % half, half)
            for c in cs:
                yield E.ExprOp("==", h.zeroExtend(w), c)
                yield E.ExprOp("<s", h.signExtend(w), c)
                yield E.ExprOp("<s", h.zeroExtend(w), c)
                yield E.ExprOp("<u", h.zeroExtend(w), c)
                yield E.ExprOp("==", E.ExprCompose(h, E.ExprInt(0, half)), c)
                yield E.ExprOp("&", E.ExprCompose(h, h), c)
            yield E.ExprCompose(h, h.signExtend(w)[half:w])


def fam_cond_nary(widths):
    """n-ary commutative operations holding several conditionals (same and different conditions) next to
    identifiers / constants, bare and nested under every kind of parent node (simp_cond_factor,
    simp_cond_op_int, canonisation order of mixed operand kinds)."""
    E = _E()
    for w in widths:
        x = E.ExprId("x%d" % w, w)
        y = E.ExprId("y%d" % w, w)
        c1 = E.ExprId("c1", 1)
        d1 = E.ExprId("d1", 1)
        one = E.ExprInt(1, w)
        two = E.ExprInt(2 % (1 << w), w)
        conds = [
            (E.ExprCond(c1, y, one), E.ExprCond(d1, x, two)),      # different conditions
            (E.ExprCond(c1, y, one), E.ExprCond(c1, x, two)),      # same condition
            (E.ExprCond(c1, one, two), E.ExprCond(d1, two, one)),  # constant arms
            (E.ExprCond(x, y, one), E.ExprCond(y, x, two)),        # wide conditions
        ]
        others = [[], [x], [x, y], [one], [x, one], [E.ExprMem(x, 8).zeroExtend(w) if w > 8 else E.ExprOp("-", x)]]
        for op in NARY:
            for ca, cb in conds:
                for oth in others:
                    for order in (0, 1, 2):
                        args = {0: oth + [ca, cb], 1: [ca] + oth + [cb], 2: [ca, cb] + oth}[order]
                        if len(args) < 2:
                            continue
                        core = E.ExprOp(op, *args)
                        yield core
                        # every kind of parent
                        yield E.ExprOp("-", core)
                        yield E.ExprMem(core, 8)
                        yield E.ExprSlice(core, 0, 1)
                        if w > 1:
                            yield E.ExprSlice(core, 1, w)
                        yield E.ExprCond(core, x, y)
                        yield E.ExprCond(c1, core, x)
                        yield E.ExprCompose(core, x)
                        yield E.ExprCompose(x, core)
                        yield E.ExprOp("==", core, x)
                        yield E.ExprOp("<u", x, core)
                        yield E.ExprOp("+", core, y) if op != "+" else E.ExprOp("^", core, y)
                        yield E.ExprOp("<<", core, one)
                        yield core.zeroExtend(w + 1)
                        yield core.signExtend(w + 2)
                        yield E.ExprOp("FLAG_EQ_CMP", core, x)
