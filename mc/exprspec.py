"""Expression specifications: a json-able, miasm-independent description of an expression tree.

    ("int", value, size) ("id", name, size) ("loc", key, size) ("assign", dst, src) ("cond", c, a, b)
    ("mem", ptr, size) ("op", opname, arg...) ("slice", arg, start, stop) ("compose", part...)

`build(spec)` constructs the real object bottom-up from scratch, `to_spec(expr)` reads an object back through its
public attributes, `tup` undoes the json round trip (lists -> tuples).  Used by C08-C11 both as the enumeration
language of their lattices and as the replay handle of a recorded case.
"""


def _E():
    import miasm.expression.expression as m
    return m


def tup(x):
    if isinstance(x, (list, tuple)):
        return tuple(tup(i) for i in x)
    return x


def build(s):
    E = _E()
    k = s[0]
    if k == "int":
        return E.ExprInt(s[1], s[2])
    if k == "id":
        return E.ExprId(s[1], s[2])
    if k == "loc":
        return E.ExprLoc(E.LocKey(s[1]), s[2])
    if k == "assign":
        return E.ExprAssign(build(s[1]), build(s[2]))
    if k == "cond":
        return E.ExprCond(build(s[1]), build(s[2]), build(s[3]))
    if k == "mem":
        return E.ExprMem(build(s[1]), s[2])
    if k == "op":
        return E.ExprOp(s[1], *[build(a) for a in s[2:]])
    if k == "slice":
        return E.ExprSlice(build(s[1]), s[2], s[3])
    if k == "compose":
        return E.ExprCompose(*[build(a) for a in s[1:]])
    raise ValueError(k)


def to_spec(e):
    if e.is_int():
        return ("int", int(e.arg), e.size)
    if e.is_id():
        return ("id", e.name, e.size)
    if e.is_loc():
        return ("loc", e.loc_key.key, e.size)
    if e.is_assign():
        return ("assign", to_spec(e.dst), to_spec(e.src))
    if e.is_cond():
        return ("cond", to_spec(e.cond), to_spec(e.src1), to_spec(e.src2))
    if e.is_mem():
        return ("mem", to_spec(e.ptr), e.size)
    if e.is_slice():
        return ("slice", to_spec(e.arg), e.start, e.stop)
    if e.is_compose():
        return ("compose",) + tuple(to_spec(a) for a in e.args)
    if e.is_op():
        return ("op", e.op) + tuple(to_spec(a) for a in e.args)
    raise TypeError(type(e))


def children(s):
    k = s[0]
    if k in ("int", "id", "loc"):
        return []
    if k in ("mem", "slice"):
        return [s[1]]
    if k == "op":
        return list(s[2:])
    return list(s[1:])


def depth(s):
    ch = children(s)
    return 1 + max(depth(c) for c in ch) if ch else 0


def show(s):
    """Compact human rendering of a spec (for `what` strings)."""
    k = s[0]
    if k == "int":
        return "0x%X:%d" % (s[1], s[2])
    if k == "id":
        return "%s:%d" % (s[1], s[2])
    if k == "loc":
        return "loc%d:%d" % (s[1], s[2])
    if k == "assign":
        return "%s = %s" % (show(s[1]), show(s[2]))
    if k == "cond":
        return "(%s ? %s : %s)" % (show(s[1]), show(s[2]), show(s[3]))
    if k == "mem":
        return "@%d[%s]" % (s[2], show(s[1]))
    if k == "slice":
        return "%s[%d:%d]" % (show(s[1]), s[2], s[3])
    if k == "compose":
        return "{" + ", ".join(show(a) for a in s[1:]) + "}"
    if len(s) == 3 or s[1][:1].isalpha():
        return "%s(%s)" % (s[1], ", ".join(show(a) for a in s[2:]))
    return "(" + (" %s " % s[1]).join(show(a) for a in s[2:]) + ")"
