"""insngen - finite, deterministic, index-addressable lattices of instruction encodings (DESIGN 3.4).

Used by C14 / C15 / C16 (and meant for C17, C18, C31).  Nothing here imports the scripts under
/repo/test (they execute on import): their `reg_tests*` list literals / `check_instruction(...)`
calls are harvested with `ast`.

A *target* is one (architecture, mode) pair of miasm:

    x86_16 x86_32 x86_64 arml armb armtl armtb aarch64l aarch64b mips32l mips32b ppc32b msp430
    mepl mepb sh4

Per target three sources; every source is a finite sequence with a stable index:

  curated  the byte strings of test/arch/<arch>/arch.py (MeP: test/arch/mep/asm/test_major_opcode_*.py).
           The scripts give them for one byte order only; the other byte order of the same architecture
           gets the unit-swapped bytes (32-bit words for ARM/AArch64/MIPS, 16-bit for Thumb/MeP).
  bitflip  every single-bit flip of every curated vector (duplicates and curated vectors removed, sorted).
  bytesub  every substitution of one of the two *major-opcode bytes* of every curated vector by each of the
           255 other values.  The two bytes are the first two of the byte string in architectural order,
           i.e. bytes 0,1 for x86 and big-endian targets, the two most significant bytes of the first
           16/32-bit unit for little-endian targets.
  cube     opcode-map cube, a product of menus truncated by `dims` (a dict of counts, part of the bound):
             fixed-width 32-bit ISAs (arm aarch64 mips32 ppc32): part A = LO_MENU[:lo] x all 2^16 high half-words,
               part B = (first `hi` distinct high half-words of the curated vectors) x all 2^16 low half-words;
             Thumb: all 2^16 first half-words x LO_MENU[:ext] second half-words;
             msp430: all 2^16 first words x EXT_MENU[:ext] pairs of extension words;
             mep / sh4: all 2^16 first words x LO_MENU[:ext] second words (sh4: no extension);
             x86: X86_PREFIXES[mode][:prefix] x maps (one-byte, 0F)[:maps] x all 256 first opcode bytes
               x X86_SECOND[:second] x X86_TAILS[:tail].
           Index order is "leading bytes major" so that contiguous index ranges share their leading bytes
           (the checks de-duplicate the decoded byte strings inside a shard).

  immpair  instructions with two interacting immediates (AArch64 SBFM/BFM/UBFM/EXTR, ARM and Thumb-2 BFI/BFC/SBFX/UBFX,
           PPC rlwinm/rlwimi/rlwnm, MIPS32 EXT/INS): complete product of the two fields, or its boundary band.
  specimm  immediate-carrying forms x boundary constants for the targets with constant generators / modified or
           sign-extended immediates (MSP430, ARM, Thumb-2, MIPS32, PPC, AArch64) - see _specimm_words.
  x86stack x86 only: prefix stacks (segment x 66 x 67 x F3/F2/LOCK x REX) in front of string / lockable / SSE opcodes
           x ModRM forms - see X86Stack.

Everything is a pure function of (target, source, dims, index) and of the curated files.
"""
from __future__ import annotations

import ast
import glob
import os
import struct

REPO = os.environ.get("VERIF_REPO", "/repo")

# ---------------------------------------------------------------------------------------------
# targets

# name -> (machine name or None, arch test dir, dis mode, unit size in bytes, byte order of units,
#          pc bits, kind)
_T = {
    "x86_16":   ("x86_16",   "x86",     16,   1, "b", 16, "x86"),
    "x86_32":   ("x86_32",   "x86",     32,   1, "b", 32, "x86"),
    "x86_64":   ("x86_64",   "x86",     64,   1, "b", 64, "x86"),
    "arml":     ("arml",     "arm",     "l",  4, "l", 32, "fixed32"),
    "armb":     ("armb",     "arm",     "b",  4, "b", 32, "fixed32"),
    "armtl":    ("armtl",    "arm",     "l",  2, "l", 32, "thumb"),
    "armtb":    ("armtb",    "arm",     "b",  2, "b", 32, "thumb"),
    "aarch64l": ("aarch64l", "aarch64", "l",  4, "l", 64, "fixed32"),
    "aarch64b": ("aarch64b", "aarch64", "b",  4, "b", 64, "fixed32"),
    "mips32l":  ("mips32l",  "mips32",  "l",  4, "l", 32, "fixed32"),
    "mips32b":  ("mips32b",  "mips32",  "b",  4, "b", 32, "fixed32"),
    "ppc32b":   ("ppc32b",   "ppc32",   "b",  4, "b", 32, "fixed32"),
    "msp430":   ("msp430",   "msp430",  None, 2, "l", 16, "msp430"),
    "mepl":     ("mepl",     "mep",     "l",  2, "l", 32, "word16"),
    "mepb":     ("mepb",     "mep",     "b",  2, "b", 32, "word16"),
    "sh4":      (None,       "sh4",     None, 2, "l", 32, "sh4"),
}

TARGETS = list(_T)
LIFT_TARGETS = [t for t in TARGETS if _T[t][0] is not None]      # sh4 has no lifter


class Target(object):
    __slots__ = ("name", "machine", "testdir", "mode", "unit", "order", "pc_bits", "kind")

    def __init__(self, name):
        (self.machine, self.testdir, self.mode, self.unit, self.order, self.pc_bits,
         self.kind) = _T[name]
        self.name = name

    # miasm objects are imported lazily (after native/VERIF_REPO path setup of the caller)
    def mn(self):
        if self.name == "sh4":
            from miasm.arch.sh4.arch import mn_sh4
            return mn_sh4
        from miasm.analysis.machine import Machine
        return Machine(self.machine).mn

    def machine_obj(self):
        from miasm.analysis.machine import Machine
        return Machine(self.machine)

    def pack(self, units):
        """Units (architectural integers of `unit` bytes) -> byte string in this target's byte order."""
        if self.unit == 1:
            return bytes(units)
        fmt = {2: "H", 4: "I"}[self.unit]
        return struct.pack(("<" if self.order == "l" else ">") + fmt * len(units), *units)

    def swap_units(self, b):
        """Byte string of the *other* byte order of the same architecture."""
        u = self.unit
        if u == 1:
            return b
        out = b""
        for i in range(0, len(b) - len(b) % u, u):
            out += b[i:i + u][::-1]
        return out + b[len(b) - len(b) % u:]

    def major_positions(self, n):
        """Positions (in the byte string) of the two major-opcode bytes of an n-byte vector."""
        if self.order == "b" or self.unit == 1:
            pos = [0, 1]
        else:
            pos = [self.unit - 1, self.unit - 2]
        return [p for p in pos if p < n]


def target(name):
    return Target(name)


# ---------------------------------------------------------------------------------------------
# curated vectors, harvested with ast

# byte order / mode in which each script lists its bytes
_SCRIPT_ORDER = {"arm": "l", "aarch64": "l", "mips32": "b", "ppc32": "b", "msp430": None, "sh4": None, "mep": "b"}

_cache = {}


def _literal_lists(path, prefix="reg_tests"):
    """name -> python value of every top-level `reg_tests*` list literal of the script.
    Evaluated in a namespace that only defines the mode constants those literals use."""
    with open(path) as fd:
        tree = ast.parse(fd.read(), path)
    env = {"m16": 16, "m32": 32, "m64": 64, "__builtins__": {}}
    out = {}
    for node in tree.body:
        if not isinstance(node, ast.Assign) or len(node.targets) != 1:
            continue
        tgt = node.targets[0]
        if isinstance(tgt, ast.Name) and tgt.id.startswith(prefix) and isinstance(node.value, (ast.List, ast.Tuple)):
            code = compile(ast.Expression(node.value), path, "eval")
            out[tgt.id] = eval(code, dict(env))
    return out


def _hex(s):
    return bytes.fromhex(s.replace(" ", ""))


def _harvest(testdir):
    """-> list of (mode_as_listed, bytes) in file order."""
    key = ("harvest", testdir)
    if key in _cache:
        return _cache[key]
    base = os.path.join(REPO, "test", "arch", testdir)
    res = []
    if testdir == "mep":
        for path in sorted(glob.glob(os.path.join(base, "asm", "test_major_opcode_*.py"))):
            with open(path) as fd:
                tree = ast.parse(fd.read(), path)
            for node in ast.walk(tree):
                if (isinstance(node, ast.Call) and isinstance(node.func, ast.Name)
                        and node.func.id == "check_instruction" and len(node.args) >= 2
                        and isinstance(node.args[1], ast.Constant) and isinstance(node.args[1].value, str)):
                    res.append(("b", _hex(node.args[1].value), "mep"))
    else:
        lists = _literal_lists(os.path.join(base, "arch.py"))
        for name in sorted(lists):
            for ent in lists[name]:
                if len(ent) == 3:
                    mode, _txt, hx = ent
                else:
                    _txt, hx = ent
                    mode = _SCRIPT_ORDER[testdir]
                res.append((mode, _hex(hx), name))
    _cache[key] = res
    return res


def curated(name):
    """Sorted list of distinct curated byte strings of the target."""
    key = ("curated", name)
    if key in _cache:
        return _cache[key]
    t = Target(name)
    out = set()
    for mode, b, lst in _harvest(t.testdir):
        if t.kind == "x86":
            if mode == t.mode:
                out.add(b)
            continue
        if t.testdir == "arm":
            if (t.kind == "thumb") != (lst == "reg_tests_armt"):
                continue
        if mode == t.mode:
            out.add(b)
        else:
            out.add(t.swap_units(b))
    res = sorted(out, key=lambda b: (len(b), b))
    _cache[key] = res
    return res


def bitflips(name):
    key = ("bitflip", name)
    if key in _cache:
        return _cache[key]
    cur = curated(name)
    seen = set(cur)
    out = set()
    for b in cur:
        for i in range(len(b) * 8):
            m = bytearray(b)
            m[i >> 3] ^= 0x80 >> (i & 7)
            m = bytes(m)
            if m not in seen:
                out.add(m)
    res = sorted(out, key=lambda b: (len(b), b))
    _cache[key] = res
    return res


def bytesubs(name):
    key = ("bytesub", name)
    if key in _cache:
        return _cache[key]
    t = Target(name)
    cur = curated(name)
    seen = set(cur)
    out = set()
    for b in cur:
        for p in t.major_positions(len(b)):
            for v in range(256):
                if v == b[p]:
                    continue
                m = b[:p] + bytes([v]) + b[p + 1:]
                if m not in seen:
                    out.add(m)
    res = sorted(out, key=lambda b: (len(b), b))
    _cache[key] = res
    return res


# ---------------------------------------------------------------------------------------------
# cubes

# second half-word / second word menu: all-zero, all-one, alternating, register-field ramps, boundaries
LO_MENU = [0x0000, 0xFFFF, 0x5555, 0xAAAA, 0x0123, 0x4567, 0x89AB, 0xCDEF,
           0x0001, 0x8000, 0x7FFF, 0xF000, 0x0F00, 0x00F0, 0x000F, 0x0090]
# Thumb second half-words: the generic menu plus the BL/BLX suffix patterns and wide-encoding field ramps
THUMB_MENU = [0x0000, 0xFFFF, 0xF800, 0xE800, 0x5555, 0xAAAA, 0x0123, 0x4567,
              0x89AB, 0xCDEF, 0x8000, 0x7FFF, 0xF000, 0x0F00, 0x00F0, 0x000F]
# MSP430: (src extension word, dst extension word)
EXT_MENU = [(0x0000, 0x0000), (0xFFFF, 0xFFFF), (0x5555, 0xAAAA), (0x1234, 0x5678),
            (0x0001, 0x8000), (0x7FFF, 0x0002), (0x8000, 0x0001), (0xFFFE, 0x0100)]

X86_PREFIXES = {
    16: [b"", b"\x66", b"\x67", b"\xf2", b"\xf3"],
    32: [b"", b"\x66", b"\x67", b"\xf2", b"\xf3"],
    64: [b"", b"\x48", b"\x66", b"\x45", b"\x67", b"\xf2", b"\xf3"],
}
X86_MAPS = [b"", b"\x0f"]
# ModRM (or first immediate) byte menu: every mod, SIB / disp-only forms, register ramps
X86_SECOND = [0x00, 0xC0, 0x04, 0x05, 0x40, 0x80, 0xC1, 0xD8,
              0x44, 0x84, 0x06, 0x0C, 0xFF, 0xE0, 0x3F, 0x7D]
# continuation menu (SIB / displacement / immediate bytes), 13 bytes so that every form is complete
X86_TAILS = [
    bytes(13),
    bytes([0x25, 0x11, 0x22, 0x33, 0x44, 0x55, 0x66, 0x77, 0x88, 0x99, 0xAA, 0xBB, 0xCC]),
    bytes([0xFF] * 13),
    bytes([0x24, 0x80, 0x00, 0x00, 0x00, 0x7F, 0xFF, 0xFF, 0xFF, 0x01, 0x02, 0x03, 0x04]),
    bytes([0x8D, 0x7F, 0x00, 0x00, 0x80, 0x00, 0x01, 0x00, 0x00, 0x80, 0x00, 0x00, 0x00]),
    bytes([0x5C, 0xFC, 0xFF, 0xFF, 0xFF, 0x10, 0x00, 0x20, 0x00, 0x30, 0x00, 0x40, 0x00]),
    bytes([0xE5, 0x00, 0x10, 0x00, 0x00, 0xFE, 0xFF, 0x00, 0x00, 0x00, 0x00, 0x00, 0x80]),
    bytes([0x20, 0x01, 0x23, 0x45, 0x67, 0x89, 0xAB, 0xCD, 0xEF, 0xF0, 0x0F, 0x55, 0xAA]),
]

# largest dims (the "complete" cube of DESIGN 3.4); checks truncate them per tier
FULL_DIMS = {
    "fixed32": {"lo": 16, "hi": 8},
    "thumb": {"ext": 16},
    "msp430": {"ext": 8},
    "word16": {"ext": 16},
    "sh4": {"ext": 1},
    "x86": {"prefix": 7, "maps": 2, "second": 16, "tail": 8},
}


def hi_menu(name):
    """Distinct high half-words of the curated vectors, in sorted order of first bytes (deterministic)."""
    t = Target(name)
    seen = []
    for b in curated(name):
        if len(b) < 4:
            continue
        w = struct.unpack(("<" if t.order == "l" else ">") + "I", b[:4])[0]
        h = w >> 16
        if h not in seen:
            seen.append(h)
    # spread over the opcode space: sort and take evenly spaced entries first
    seen.sort()
    return seen


def _spread(lst, n):
    """n entries of lst, evenly spaced (deterministic)."""
    if n >= len(lst):
        return list(lst)
    return [lst[(i * len(lst)) // n] for i in range(n)]


class Cube(object):
    """Index-addressable opcode-map cube of one target. `group` = number of consecutive indexes that share
    their leading bytes (shard boundaries are multiples of it).
    dims["stride"] = s (default 1) restricts the completely enumerated 16-bit axis to the multiples of s
    (a quick-tier bound: for s = 2^k the k low bits of that half-word - an operand field - stay 0)."""

    def __init__(self, name, dims):
        self.t = t = Target(name)
        self.name = name
        self.dims = dict(dims)
        k = t.kind
        self.stride = st = int(dims.get("stride", 1))
        self.nw = nw = (65536 + st - 1) // st
        if k == "fixed32":
            self.lo = LO_MENU[:dims.get("lo", 0)]
            self.hi = _spread(hi_menu(name), dims.get("hi", 0))
            self.nA = nw * len(self.lo)
            self.n = self.nA + nw * len(self.hi)
            self.group = 1
            self._lo_set = set(self.lo)
        elif k == "thumb":
            self.ext = THUMB_MENU[:dims["ext"]]
            self.n = nw * len(self.ext)
            self.group = len(self.ext)
        elif k == "msp430":
            self.ext = EXT_MENU[:dims["ext"]]
            self.n = nw * len(self.ext)
            self.group = len(self.ext)
        elif k == "word16":
            self.ext = LO_MENU[:dims["ext"]]
            self.n = nw * len(self.ext)
            self.group = len(self.ext)
        elif k == "sh4":
            self.ext = [None]
            self.n = nw
            self.group = 1
        elif k == "x86":
            self.pre = X86_PREFIXES[t.mode][:dims["prefix"]]
            self.maps = X86_MAPS[:dims["maps"]]
            self.second = X86_SECOND[:dims["second"]]
            self.tails = X86_TAILS[:dims["tail"]]
            self.group = len(self.second) * len(self.tails)
            self.n = len(self.pre) * len(self.maps) * 256 * self.group
        else:
            raise ValueError(k)

    def item(self, i):
        """Byte string number i, or None for a hole (an element already present at a smaller index)."""
        t = self.t
        k = t.kind
        st = self.stride
        if k == "fixed32":
            if i < self.nA:
                m, h = divmod(i, self.nw)
                return t.pack([((h * st) << 16) | self.lo[m]])
            m, l = divmod(i - self.nA, self.nw)
            l *= st
            if l in self._lo_set:
                return None
            return t.pack([(self.hi[m] << 16) | l])
        if k == "thumb" or k == "word16":
            w, m = divmod(i, len(self.ext))
            return t.pack([w * st, self.ext[m]])
        if k == "msp430":
            w, m = divmod(i, len(self.ext))
            return t.pack([w * st, self.ext[m][0], self.ext[m][1]])
        if k == "sh4":
            return t.pack([i * st])
        # x86: prefix, map, first, second, tail  (most -> least significant)
        i, ti = divmod(i, len(self.tails))
        i, si = divmod(i, len(self.second))
        i, first = divmod(i, 256)
        pi, mi = divmod(i, len(self.maps))
        if not self.maps[mi] and first == 0x0F and len(self.maps) > 1:
            return None          # the 0F map has its own, complete, slab
        if not self.pre[pi] and not self.maps[mi] and bytes([first]) in self.pre:
            return None          # an enumerated prefix byte: its own slab follows it with all 256 opcodes
        return self.pre[pi] + self.maps[mi] + bytes([first, self.second[si]]) + self.tails[ti]

    def bounds(self):
        return {"dims": self.dims, "size": self.n}


# ---------------------------------------------------------------------------------------------
# x86 prefix stacks: segment override x operand-size x address-size x F3/F2/LOCK x REX in front of the opcode families
# whose meaning depends on the stack: string instructions (REP/REPE/REPNE), lockable read-modify-write instructions,
# SSE opcodes whose 66/F2/F3 prefix is part of the opcode.  Stack order: segment, 67, 66, F3|F2|F0, REX (the decoder
# treats a 66/F2/F3 as "mandatory" only when it is the last legacy prefix).

XS_SEG = [b"", b"\x64", b"\x2e", b"\x65", b"\x36", b"\x3e", b"\x26"]
XS_OPSZ = [b"", b"\x66"]
XS_ADSZ = [b"", b"\x67"]
XS_MAND = [b"", b"\xf3", b"\xf2", b"\xf0"]
XS_REX = {16: [b""], 32: [b""], 64: [b"", b"\x48", b"\x44", b"\x41"]}
XS_OPS = {
    # no ModRM
    "string": ["6c", "6d", "6e", "6f", "a4", "a5", "a6", "a7", "aa", "ab", "ac", "ad", "ae", "af"],
    # ADD OR AND SUB XOR XCHG INC/DEC(/0) CMPXCHG XADD BTS
    "lock": ["00", "01", "09", "21", "29", "31", "86", "87", "fe", "ff", "0fb0", "0fb1", "0fc0", "0fc1", "0fab"],
    # MOVDQA/MOVDQU/MOVQ, PXOR, ADDxx, MOVUPx/MOVSx, MOVQ/MOVD, CVTxx, SQRTxx, MOVLPx/MOVDDUP, PSHUFB, ADDSUBPx
    "sse": ["0f6f", "0f7f", "0fef", "0f58", "0f10", "0f11", "0f7e", "0fd6", "0f2a", "0f51", "0f5a", "0fe6", "0f12",
            "0f3800", "0fd0", "0f70"],
}
# ModRM forms, each completed so that every addressing form has its bytes: [reg], reg-reg, disp32 / RIP, SIB+disp8
XS_MODRM = ["00", "c1", "0511223344", "442408"]
XS_TAIL = bytes([0x10, 0x20, 0x30, 0x40, 0x50, 0x60, 0x70, 0x80])


class X86Stack(object):
    """dims: seg, opsz, adsz, mand, rex (counts: truncations of the XS_* menus), ops (tuple of XS_OPS class names),
    modrm (count).  Index order: stack (seg, opsz, adsz, mand, rex as loops; bytes emitted seg 67 66 mand rex) major,
    then opcode, then ModRM form."""

    def __init__(self, name, dims):
        self.t = t = Target(name)
        assert t.kind == "x86"
        self.dims = dict(dims)
        self.seg = XS_SEG[:dims["seg"]]
        self.opsz = XS_OPSZ[:dims["opsz"]]
        self.adsz = XS_ADSZ[:dims["adsz"]]
        self.mand = XS_MAND[:dims["mand"]]
        self.rex = XS_REX[t.mode][:dims["rex"]]
        self.modrm = [bytes.fromhex(m) for m in XS_MODRM[:dims["modrm"]]]
        self.ops = []
        for cls in dims["ops"]:
            for o in XS_OPS[cls]:
                forms = [b""] if cls == "string" else self.modrm
                for m in forms:
                    self.ops.append(bytes.fromhex(o) + m + XS_TAIL)
        self.stacks = []
        for a in self.seg:
            for b in self.opsz:
                for c in self.adsz:
                    for d in self.mand:
                        for e in self.rex:
                            self.stacks.append(a + c + b + d + e)
        self.group = len(self.ops)
        self.n = len(self.stacks) * len(self.ops)

    def item(self, i):
        si, oi = divmod(i, len(self.ops))
        return self.stacks[si] + self.ops[oi]


# ---------------------------------------------------------------------------------------------
# immediate pairs: instructions whose two immediates interact (bit-field position / width, rotate mask bounds):
# the COMPLETE product of the two fields ("full") or its boundary band ("band": |a-b| <= 1, or a / b one of
# 0, 1, n/2, n-1), registers fixed (Rd=2, Rn=1, Rm=3 or =Rn).  A template = (name, word builder f(a, b) -> units, na, nb).

def _t2(hw1, f):
    return lambda a, b: [hw1, f(a, b)]


def _immpair_templates(testdir, kind):
    T = []
    if testdir == "aarch64":
        # sf opc 100110 N immr imms Rn Rd ; 32-bit forms keep the 6-bit fields (values >= 32 are reserved encodings)
        for nm, base in (("SBFM64", 0x93400000), ("BFM64", 0xB3400000), ("UBFM64", 0xD3400000),
                         ("SBFM32", 0x13000000), ("BFM32", 0x33000000), ("UBFM32", 0x53000000)):
            T.append((nm, (lambda base: lambda a, b: [base | a << 16 | b << 10 | 1 << 5 | 2])(base), 64, 64))
        # EXTR Rd, Rn, Rm, #imms : a = 0 -> Rm = Rn (ROR alias), a = 1 -> Rm = X3
        for nm, base in (("EXTR64", 0x93C00000), ("EXTR32", 0x13800000)):
            T.append((nm, (lambda base: lambda a, b: [base | (1 if a == 0 else 3) << 16 | b << 10 | 1 << 5 | 2])(base), 2, 64))
    elif testdir == "arm" and kind == "fixed32":
        # BFI/BFC: a = msb, b = lsb ; SBFX/UBFX: a = width-1, b = lsb
        for nm, base in (("BFI", 0xE7C00011), ("BFC", 0xE7C0001F), ("SBFX", 0xE7A00051), ("UBFX", 0xE7E00051)):
            T.append((nm, (lambda base: lambda a, b: [base | a << 16 | 2 << 12 | b << 7])(base), 32, 32))
    elif testdir == "arm" and kind == "thumb":
        # hw2 = 0 imm3 Rd imm2 0 msb/widthm1 ; b = lsb = imm3:imm2
        f = lambda a, b: (b >> 2) << 12 | 2 << 8 | (b & 3) << 6 | a
        for nm, hw1 in (("BFI", 0xF361), ("BFC", 0xF36F), ("SBFX", 0xF341), ("UBFX", 0xF3C1)):
            T.append((nm, _t2(hw1, f), 32, 32))
    elif testdir == "ppc32":
        # rlwinm / rlwimi RA, RS, SH, MB, ME ; rlwnm RA, RS, RB, MB, ME : a = MB, b = ME
        for nm, base in (("RLWINM_sh0", 0x54000000 | 1 << 21 | 2 << 16), ("RLWINM_sh7", 0x54000000 | 1 << 21 | 2 << 16 | 7 << 11),
                         ("RLWINM._sh31", 0x54000001 | 1 << 21 | 2 << 16 | 31 << 11),
                         ("RLWIMI_sh7", 0x50000000 | 1 << 21 | 2 << 16 | 7 << 11), ("RLWNM", 0x5C000000 | 1 << 21 | 2 << 16 | 3 << 11)):
            T.append((nm, (lambda base: lambda a, b: [base | a << 6 | b << 1])(base), 32, 32))
    elif testdir == "mips32":
        # EXT / INS rt, rs, pos, size : a = msbd / msb field, b = lsb field
        for nm, base in (("EXT", 0x7C000000 | 1 << 21 | 2 << 16), ("INS", 0x7C000004 | 1 << 21 | 2 << 16)):
            T.append((nm, (lambda base: lambda a, b: [base | a << 11 | b << 6])(base), 32, 32))
    return T


def _band(na, nb):
    ba = set(x for x in (0, 1, na // 2, na - 1) if 0 <= x < na)
    bb = set(x for x in (0, 1, nb // 2, nb - 1) if 0 <= x < nb)
    return [(a, b) for a in range(na) for b in range(nb) if abs(a - b) <= 1 or a in ba or b in bb]


IMMPAIR_TARGETS = ["aarch64l", "aarch64b", "arml", "armb", "armtl", "armtb", "ppc32b", "mips32l", "mips32b"]


class ImmPair(object):
    """dims: {"mode": "full" | "band"}.  Index order: template, then (a, b) row-major."""

    def __init__(self, name, dims):
        self.t = t = Target(name)
        self.dims = dict(dims)
        self.items = []
        for nm, f, na, nb in _immpair_templates(t.testdir, t.kind):
            pairs = _band(na, nb) if dims["mode"] == "band" else [(a, b) for a in range(na) for b in range(nb)]
            for a, b in pairs:
                self.items.append(t.pack(f(a, b)))
        self.n = len(self.items)
        self.group = 1

    def item(self, i):
        return self.items[i]


# ---------------------------------------------------------------------------------------------
# special immediates: the immediate-carrying forms of the targets whose encodings treat some constants specially
# (MSP430 constant generators R3/SR vs @PC+ extension word, ARM / Thumb-2 modified immediates, sign- vs zero-extended
# 16-bit immediates of MIPS32 / PPC, AArch64 shifted imm12 and MOVZ/MOVN/MOVK) x a list of boundary constants.
# dims: {"mode": "quick" | "full"} (quick: MSP430 register destination only, ARM: 8 of the 16 data-processing opcodes)

SI_16 = [0x0000, 0x0001, 0x0002, 0x0003, 0x0004, 0x0008, 0x00FF, 0x0100, 0x7FFF, 0x8000, 0xFF00, 0xFFFC, 0xFFFE, 0xFFFF]
SI_T32 = [0x000, 0x001, 0x0FF, 0x100, 0x1FF, 0x200, 0x2FF, 0x300, 0x3FF, 0x400, 0x47F, 0x480, 0x4FF, 0x7FF, 0x800,
          0x8FF, 0xF80, 0xFFF]
SI_ARM_IMM8 = [0x00, 0x01, 0x02, 0x3F, 0x7F, 0x80, 0xC0, 0xFF]


def _specimm_words(testdir, kind, mode):
    """-> list of unit lists"""
    out = []
    if testdir == "msp430":
        ads = (0,) if mode == "quick" else (0, 1)
        for bw in (0, 1):
            for op in range(4, 16):                   # format I: mov add addc subc sub cmp dadd bit bic bis xor and
                for ad in ads:
                    dst = [0x0010] if ad else []
                    base = op << 12 | ad << 7 | bw << 6 | 12
                    for imm in SI_16:                 # src = @PC+ : immediate in the extension word
                        out.append([base | 0 << 8 | 3 << 4, imm] + dst)
                    for src, a_s in ((3, 0), (3, 1), (3, 2), (3, 3), (2, 2), (2, 3)):      # constant generators
                        out.append([base | src << 8 | a_s << 4] + dst)
            for opc in range(7):                      # format II: rrc swpb rra sxt push call reti
                base = 0x1000 | opc << 7 | bw << 6
                for imm in SI_16:
                    out.append([base | 3 << 4 | 0, imm])
                for reg, a_s in ((3, 0), (3, 1), (3, 2), (3, 3), (2, 2), (2, 3)):
                    out.append([base | a_s << 4 | reg])
    elif testdir == "arm" and kind == "fixed32":
        ops = (0, 2, 4, 10, 12, 13, 14, 15) if mode == "quick" else range(16)       # AND SUB ADD CMP ORR MOV BIC MVN
        for op in ops:
            for sbit in ((1,) if 8 <= op <= 11 else (0, 1)):
                for rot in range(16):
                    for imm8 in SI_ARM_IMM8:
                        rn = 0 if op in (13, 15) else 1         # MOV / MVN have no Rn, the compare group no Rd
                        rd = 0 if 8 <= op <= 11 else 2
                        out.append([0xE2000000 | op << 21 | sbit << 20 | rn << 16 | rd << 12 | rot << 8 | imm8])
    elif testdir == "arm" and kind == "thumb":
        for op, rn, rd, sbit in ((0, 1, 2, 0), (1, 1, 2, 0), (2, 1, 2, 0), (2, 15, 2, 0), (3, 1, 2, 0), (3, 15, 2, 0),
                                 (4, 1, 2, 0), (8, 1, 2, 0), (10, 1, 2, 0), (11, 1, 2, 0), (13, 1, 2, 0), (14, 1, 2, 0),
                                 (13, 1, 15, 1), (0, 1, 15, 1), (8, 1, 2, 1)):
            for v in SI_T32:
                out.append([0xF000 | (v >> 11) << 10 | op << 5 | sbit << 4 | rn, ((v >> 8) & 7) << 12 | rd << 8 | (v & 0xFF)])
    elif testdir == "mips32":
        for op in (4, 5, 8, 9, 10, 11, 12, 13, 14, 15, 32, 33, 35, 36, 37, 40, 41, 43):
            for imm in SI_16:
                out.append([op << 26 | 1 << 21 | 2 << 16 | imm])
    elif testdir == "ppc32":
        for op in (7, 8, 10, 11, 12, 13, 14, 15, 24, 25, 26, 27, 28, 29, 32, 34, 36, 38, 40, 42, 44):
            for ra in (1, 0):
                for imm in SI_16:
                    out.append([op << 26 | 2 << 21 | ra << 16 | imm])
    elif testdir == "aarch64":
        for sf in (1, 0):
            for opS in range(4):                      # ADD ADDS SUB SUBS (immediate), shift 0 / 12
                for sh in (0, 1):
                    for imm in (0, 1, 0x7FF, 0x800, 0xFFF):
                        out.append([sf << 31 | opS << 29 | 0x11 << 24 | sh << 22 | imm << 10 | 1 << 5 | 2])
            for opc in (0, 2, 3):                     # MOVN MOVZ MOVK
                for hw in range(4):
                    for imm in (0, 1, 0x7FFF, 0x8000, 0xFFFF):
                        out.append([sf << 31 | opc << 29 | 0x25 << 23 | hw << 21 | imm << 5 | 2])
    return out


SPECIMM_TARGETS = ["msp430", "arml", "armb", "armtl", "armtb", "mips32l", "mips32b", "ppc32b", "aarch64l", "aarch64b"]


class SpecImm(object):
    def __init__(self, name, dims):
        self.t = t = Target(name)
        self.dims = dict(dims)
        self.items = [t.pack(u) for u in _specimm_words(t.testdir, t.kind, dims["mode"])]
        self.n = len(self.items)
        self.group = 1

    def item(self, i):
        return self.items[i]


# ---------------------------------------------------------------------------------------------
# uniform access

class Source(object):
    """A finite sequence of byte strings: .n, .item(i) (None = hole), .group (shard alignment)."""

    def __init__(self, name, kind, dims=None):
        self.name, self.kind = name, kind
        if kind == "cube":
            self._c = Cube(name, dims)
            self.n, self.group = self._c.n, self._c.group
            self.item = self._c.item
        elif kind == "x86stack":
            self._c = X86Stack(name, dims)
            self.n, self.group = self._c.n, self._c.group
            self.item = self._c.item
        elif kind == "immpair":
            self._c = ImmPair(name, dims)
            self.n, self.group = self._c.n, self._c.group
            self.item = self._c.item
        elif kind == "specimm":
            self._c = SpecImm(name, dims)
            self.n, self.group = self._c.n, self._c.group
            self.item = self._c.item
        else:
            lst = {"curated": curated, "bitflip": bitflips, "bytesub": bytesubs}[kind](name)
            self._l = lst
            self.n, self.group = len(lst), 1
            self.item = lst.__getitem__


def source(name, kind, dims=None):
    key = ("src", name, kind, tuple(sorted((k, tuple(v) if isinstance(v, list) else v) for k, v in (dims or {}).items())))
    if key not in _cache:
        _cache[key] = Source(name, kind, dims)
    return _cache[key]


def shards(name, kind, dims=None, size=4096):
    """[(target, kind, dims, lo, hi)] covering the whole source; boundaries aligned on the source's group."""
    s = source(name, kind, dims)
    step = max(s.group, (size // s.group) * s.group)
    return [(name, kind, dims, lo, min(lo + step, s.n)) for lo in range(0, s.n, step)]



# ---------------------------------------------------------------------------------------------
# decoding a shard (shared by C14 / C15 / C16)

PAD = bytes(16)     # appended to curated / bitflip / bytesub elements of variable-length targets, so that a
                    # deviation that lengthens the instruction is still complete; cube elements carry their tail
VARLEN = ("x86", "thumb", "msp430", "word16")

_env = {}


def env(name):
    """Per-process cache: (Target, mn class)."""
    if name not in _env:
        t = Target(name)
        _env[name] = (t, t.mn())
    return _env[name]


def raw_of(name, kind, b):
    """The byte string handed to the decoder for element b of source `kind`."""
    if kind != "cube" and Target(name).kind in VARLEN:
        return b + PAD
    return b


def decode(name, raw):
    """-> instruction or None (Disasm_Exception), raises nothing else but the decoder's own crashes."""
    from miasm.core.cpu import Disasm_Exception
    t, mn = env(name)
    try:
        return mn.dis(raw, t.mode)
    except Disasm_Exception:
        return None


def iter_shard_indexed(shard, stats, stride=1):
    """Yield (index, raw, instr) for every element of the shard (only indexes that are multiples of `stride`) that
    the decoder accepts, once per distinct decoded byte string (instr.b) inside the shard.  stats (dict) receives:
    elements, holes, undecodable, decoder_raised:<Type>, decoded, distinct."""
    name, kind, dims, lo, hi = shard
    src = source(name, kind, dims)
    seen = set()
    for i in range(lo, hi):
        if stride > 1 and i % stride:
            continue
        b = src.item(i)
        if b is None:
            stats["holes"] = stats.get("holes", 0) + 1
            continue
        stats["elements"] = stats.get("elements", 0) + 1
        raw = raw_of(name, kind, b)
        try:
            instr = decode(name, raw)
        except Exception as e:        # decoder crash: the decoder did not accept the bytes (out of C14-C16's scope)
            k = "decoder_raised:" + type(e).__name__
            stats[k] = stats.get(k, 0) + 1
            continue
        if instr is None:
            stats["undecodable"] = stats.get("undecodable", 0) + 1
            continue
        stats["decoded"] = stats.get("decoded", 0) + 1
        key = bytes(instr.b)
        if key in seen:
            continue
        seen.add(key)
        stats["distinct"] = stats.get("distinct", 0) + 1
        if kind != "cube":
            stats.setdefault("_keys", []).append(key)
        yield i, raw, instr


def iter_shard(shard, stats):
    for _i, raw, instr in iter_shard_indexed(shard, stats):
        yield raw, instr


_COND = ("EQ", "NE", "CS", "CC", "MI", "PL", "VS", "VC", "HI", "LS", "GE", "LT", "GT", "LE", "AL", "NV")


def skeleton(e):
    """Operand-independent shape of an expression: registers -> r, constants -> i, operators kept."""
    if e.is_id():
        return "r"
    if e.is_int():
        return "i"
    if e.is_loc():
        return "l"
    if e.is_mem():
        return "@[%s]" % skeleton(e.ptr)
    if e.is_op():
        if len(e.args) == 1:
            return "%s(%s)" % (e.op, skeleton(e.args[0]))
        return "(" + e.op.join(skeleton(a) for a in e.args) + ")"
    if e.is_slice():
        return skeleton(e.arg) + "[:]"
    if e.is_cond():
        return "?"
    if e.is_compose():
        return "{" + ",".join(skeleton(a) for a in e.args) + "}"
    return "?"


def note_best(best, v, key):
    """Keep, per signature, the smallest witness, the number of cases and (folded signatures) the mnemonics."""
    cur = best.get(v["sig"])
    if cur is None:
        best[v["sig"]] = cur = [key, v, 0, set()]
    elif key < cur[0]:
        cur[0], cur[1] = key, v
    cur[2] += 1
    if v.get("mnemo"):
        cur[3].add(v["mnemo"])


def base_mnemonic(name, instr_name):
    """Mnemonic without the ARM condition suffix (keeps signatures few): a trailing condition code is dropped
    when the remainder is itself a mnemonic of the architecture."""
    t, mn = env(name)
    if t.testdir == "arm" and len(instr_name) > 2 and instr_name[-2:] in _COND:
        if instr_name[:-2] in mn.all_mn_name:
            return instr_name[:-2]
    return instr_name


def quiet():
    """The arch modules log warnings ('dis multiple args ret default', 'DEFAULT SLDT ADDRESS' ...) on stderr for
    perfectly legal inputs: raise the level of every miasm logger (no effect on behaviour)."""
    import logging
    for lname in list(logging.root.manager.loggerDict):
        lg = logging.getLogger(lname)
        if lg.handlers:
            lg.setLevel(logging.CRITICAL)


def fold(ctx, results, bounds, extra_bounds=None, nontrivial=None):
    """Merge shard results (target, kind, stats, counters, best, sample, keys) into the coverage dict and hand
    one violation per signature (smallest witness, with the number of cases) to ctx."""
    per_target = {}
    counters = {}
    best = {}
    samples = []
    keysets = {}
    distinct_cube = {}
    for name, kind, stats, cnt, bst, sample, keys in results:
        pt = per_target.setdefault(name, {})
        for k, v in stats.items():
            pt[k] = pt.get(k, 0) + v
        for k, v in cnt.items():
            counters[k] = counters.get(k, 0) + v
            pt[k] = pt.get(k, 0) + v
        if kind == "cube":
            distinct_cube[name] = distinct_cube.get(name, 0) + stats.get("distinct", 0)
        else:
            keysets.setdefault(name, set()).update(keys)
        for sig, ent in bst.items():
            k, v, n = ent[0], ent[1], ent[2]
            names = set(ent[3]) if len(ent) > 3 else set()     # mnemonics of a folded ("*") signature
            cur = best.get(sig)
            if cur is None:
                best[sig] = [tuple(k) if not isinstance(k, tuple) else k, v, n, names]
            else:
                cur[2] += n
                cur[3] |= names
                if k < cur[0]:
                    cur[0], cur[1] = k, v
        if sample is not None and len(samples) < 64:
            samples.append(sample)
    total_cases = 0
    for sig in sorted(best):
        k, v, n, names = best[sig]
        total_cases += n
        v = dict(v)
        v.pop("mnemo", None)
        v["what"] = v["what"] + "  [%d element(s) with this signature]" % n
        if names:
            v["what"] += "  mnemonics: " + ", ".join(sorted(names))
        ctx.add_violations([v])
    distinct = 0
    for name, pt in per_target.items():
        d = distinct_cube.get(name, 0) + len(keysets.get(name, ()))
        pt["distinct_decoded"] = d
        distinct += d
    # one sample per target, deterministic
    seen_t = set()
    smp = []
    for s in samples:
        if s["target"] not in seen_t:
            seen_t.add(s["target"])
            smp.append(s)
    tot = {}
    for pt in per_target.values():
        for k, v in pt.items():
            tot[k] = tot.get(k, 0) + v
    cov = {
        "evaluations": tot.get("elements", 0),
        "decoded": tot.get("decoded", 0),
        "undecodable": tot.get("undecodable", 0),
        "distinct_decoded": distinct,
        "distinct_nontrivial": nontrivial(counters) if nontrivial else distinct,
        "samples": smp[:8],
        "exhaustive": True,
        "bounds": dict(bounds, **(extra_bounds or {})),
        "per_target": per_target,
        "outcomes": counters,
        "violating_cases": total_cases,
        "violation_signatures": len(best),
    }
    for k, v in counters.items():
        if isinstance(v, int) and k not in cov:
            cov["n_" + k.replace(":", "_")] = v
    return cov


# ---------------------------------------------------------------------------------------------
# plans: which sources of which targets a tier enumerates (the stated bound of a check)

# one byte order per architecture: the order in which test/arch lists its vectors
NATIVE = ["x86_16", "x86_32", "x86_64", "arml", "armtl", "aarch64l", "mips32b", "ppc32b", "msp430", "mepb", "sh4"]
SWAPPED = ["armb", "armtb", "aarch64b", "mips32l", "mepl"]


def cube_dims(by_kind, targets):
    """{target: dims} from {target kind: dims}."""
    return dict((n, by_kind[Target(n).kind]) for n in targets if Target(n).kind in by_kind)


def make_plan(bounds, targets, only=None):
    """bounds = {"curated": [targets], "bitflip": [...], "bytesub": [...], "cube": {target: dims}, "shard": n}
    -> list of shards (target, kind, dims, lo, hi)."""
    out = []
    for name in targets:
        if only and name not in only:
            continue
        for kind in ("curated", "bitflip", "bytesub"):
            if name in bounds.get(kind, ()):
                out += shards(name, kind, None, bounds["shard"])
        dims = bounds.get("cube", {}).get(name)
        if dims:
            out += shards(name, "cube", dims, bounds["shard"])
        dims = bounds.get("x86stack", {}).get(name)
        if dims:
            out += shards(name, "x86stack", dims, bounds["shard"])
        dims = bounds.get("immpair", {}).get(name)
        if dims:
            out += shards(name, "immpair", dims, bounds["shard"])
        dims = bounds.get("specimm", {}).get(name)
        if dims:
            out += shards(name, "specimm", dims, bounds["shard"])
    return out


def plan_sizes(bounds, targets):
    """{target: {kind: number of indexes}} - recorded under coverage.bounds."""
    out = {}
    for name in targets:
        d = {}
        for kind in ("curated", "bitflip", "bytesub"):
            if name in bounds.get(kind, ()):
                d[kind] = source(name, kind).n
        dims = bounds.get("cube", {}).get(name)
        if dims:
            d["cube"] = source(name, "cube", dims).n
        dims = bounds.get("x86stack", {}).get(name)
        if dims:
            d["x86stack"] = source(name, "x86stack", dims).n
        dims = bounds.get("immpair", {}).get(name)
        if dims:
            d["immpair"] = source(name, "immpair", dims).n
        dims = bounds.get("specimm", {}).get(name)
        if dims:
            d["specimm"] = source(name, "specimm", dims).n
        out[name] = d
    return out


def bundles(shard_list, n):
    """Group shards into about n work units, each holding shards of ONE architecture family (a forked worker that
    touches a family's decode tables pays copy-on-write faults for them once: keep families together).
    Deterministic; order of shards inside a bundle is the plan order."""
    fam = {}
    for s in shard_list:
        fam.setdefault(Target(s[0]).testdir, []).append(s)
    total = sum(s[4] - s[3] for s in shard_list)
    cap = max(total // max(n, 1), 1)
    out = []
    for f in sorted(fam):
        cur, size = [], 0
        for s in fam[f]:
            if cur and size + (s[4] - s[3]) > cap:
                out.append(cur)
                cur, size = [], 0
            cur.append(s)
            size += s[4] - s[3]
        if cur:
            out.append(cur)
    return out


# ---------------------------------------------------------------------------------------------
# performance: CPython >= 3.11 keeps interpreter frames in 16 KiB "data stack chunks" that are mmap()ed when a call
# crosses the end of the current chunk and munmap()ed as soon as the call returns.  pyparsing / expression visitors
# recurse deeply and oscillate across chunk boundaries, so every instruction parsed cost ~80 page faults (0.1-0.7 ms
# each on this VM).  Running the work below one frame that *claims* a 4 MiB evaluation stack makes CPython allocate one
# 8 MiB chunk whose spare half then serves all nested frames.  Pure speed-up; no effect on what is computed.

def _tramp(fn, arg):
    return fn(arg)


try:
    import types as _types
    _big = _types.FunctionType(_tramp.__code__.replace(co_stacksize=(1 << 19) + 64), globals())
except Exception:           # other interpreters / future versions: plain call
    _big = _tramp


def deep_call(fn, arg):
    """fn(arg), executed below a frame with a huge (untouched) evaluation stack - see above."""
    return _big(fn, arg)
