"""Lattice of small IR graphs over a fake 32-bit architecture (section 3.3 of DESIGN.md).

A graph is addressed by (shape index, tuple of body indexes, tuple of condition indexes): everything is
a pure function of the parameters, enumeration order is fixed.

  shapes(N)      all CFG shapes on blocks 0..N-1, block 0 the head, every block reachable from the head,
                 out-degree <= 2 (END / goto j / cond ? j : k), blocks numbered in BFS discovery order
                 (one representative per relabelling).  Self loops, loops through the head, irreducible
                 shapes and diamonds are simply members.
  BODY alphabet  ordered simplest-first; a body is a list of <= L AssignBlocks.
"""
import itertools


def E():
    import miasm.expression.expression as m
    return m


class Arch(object):
    """The fake architecture of test/analysis: registers a b c r sp pc zf (+ IRDst)."""

    def __init__(self):
        m = E()
        self.a = m.ExprId("a", 32)
        self.b = m.ExprId("b", 32)
        self.c = m.ExprId("c", 32)
        self.r = m.ExprId("r", 32)
        self.sp = m.ExprId("sp", 32)
        self.pc = m.ExprId("pc", 32)
        self.zf = m.ExprId("zf", 1)
        self.IRDst = m.ExprId("IRDst", 32)
        self.END = m.ExprId("END", 32)
        self.regs = [self.a, self.b, self.c, self.r, self.sp, self.zf]
        self.inits = {x: m.ExprId(x.name + "_init", x.size) for x in self.regs + [self.pc]}


def make_lifter(loc_db, arch=None):
    """A LifterModelCall over the fake architecture (same construction as test/analysis/*.py)."""
    from miasm.ir.analysis import LifterModelCall
    A = arch or Arch()

    class Regs(object):
        exception_flags = E().ExprId("exception_flags", 32)
        regs_init = dict(A.inits)
        all_regs_ids = A.regs + [A.pc]
        all_regs_ids_init = [A.inits[x] for x in A.regs + [A.pc]]
        all_regs_ids_byname = dict((x.name, x) for x in A.regs + [A.pc])

    class FakeArch(object):
        regs = Regs()
        name = "fake"

        def getpc(self, _):
            return A.pc

        def getsp(self, _):
            return A.sp

    class FakeLifter(LifterModelCall):
        def __init__(self, loc_db):
            super(FakeLifter, self).__init__(FakeArch(), 32, loc_db)
            self.IRDst = A.IRDst
            self.ret_reg = A.r
            self.addrsize = 32

        def get_out_regs(self, _):
            return set([A.r, A.sp])

        def sizeof_char(self):
            return 8

        def sizeof_short(self):
            return 16

        def sizeof_int(self):
            return 32

        def sizeof_long(self):
            return 32

        def sizeof_pointer(self):
            return 32

    return FakeLifter(loc_db), A


# ------------------------------------------------------------------ shapes

def shapes(n):
    """List of shapes; a shape is a tuple (per block) of successor tuples: () END, (j,), (j, k) j != k."""
    key = n
    if key in _shape_cache:
        return _shape_cache[key]
    opts = [()] + [(j,) for j in range(n)] + [(j, k) for j in range(n) for k in range(n) if j != k]
    out = []
    for combo in itertools.product(opts, repeat=n):
        # BFS numbering must be the identity and every block reachable
        order = [0]
        seen = {0}
        i = 0
        while i < len(order):
            for s in combo[order[i]]:
                if s not in seen:
                    seen.add(s)
                    order.append(s)
            i += 1
        if len(order) != n or order != list(range(n)):
            continue
        out.append(combo)
    _shape_cache[key] = out
    return out


_shape_cache = {}


def shape_has_exit(shape):
    """Some END block is reachable (every block is reachable by construction)."""
    return any(len(s) == 0 for s in shape)


def shape_is_loop_free(shape):
    n = len(shape)
    color = [0] * n

    def dfs(u):
        color[u] = 1
        for v in shape[u]:
            if color[v] == 1:
                return False
            if color[v] == 0 and not dfs(v):
                return False
        color[u] = 2
        return True
    return dfs(0)


# ------------------------------------------------------------------ bodies

def assign_alphabet(A, names):
    """Ordered alphabet of AssignBlock contents (dict dst -> src)."""
    m = E()
    a, b, c, r, sp, zf = A.a, A.b, A.c, A.r, A.sp, A.zf
    one = m.ExprInt(1, 32)
    table = {
        "a=b": {a: b},
        "b=a": {b: a},
        "a=a+1": {a: a + one},
        "b=b+1": {b: b + one},
        "a=0": {a: m.ExprInt(0, 32)},
        "a=2": {a: m.ExprInt(2, 32)},
        "b=1": {b: one},
        "c=a+b": {c: a + b},
        "a=c": {a: c},
        "swap": {a: b, b: a},
        "a=b,c=a": {a: b, c: a},
        "r=a": {r: a},
        "r=b": {r: b},
        "r=c": {r: c},
        "zf=a==b": {zf: m.ExprOp("==", a, b)},
        "zf=a==0": {zf: m.ExprOp("==", a, m.ExprInt(0, 32))},
        "a=@[sp+4]": {a: m.ExprMem(sp + m.ExprInt(4, 32), 32)},
        "b=@[sp+4]": {b: m.ExprMem(sp + m.ExprInt(4, 32), 32)},
        "b=@[sp+8]": {b: m.ExprMem(sp + m.ExprInt(8, 32), 32)},
        "@[sp+4]=a": {m.ExprMem(sp + m.ExprInt(4, 32), 32): a},
        "@[sp+4]=b": {m.ExprMem(sp + m.ExprInt(4, 32), 32): b},
        "@[sp+8]=1": {m.ExprMem(sp + m.ExprInt(8, 32), 32): one},
        "@[a]=b": {m.ExprMem(a, 32): b},
        "b=@[a]": {b: m.ExprMem(a, 32)},
        "@8[sp+5]=a": {m.ExprMem(sp + m.ExprInt(5, 32), 8): a[:8]},
        # narrow stores inside the 32-bit slot @[sp+4] (bytes 1, 2, 3 and the upper word), reads of the slot / of its parts
        "@8[sp+5]=b": {m.ExprMem(sp + m.ExprInt(5, 32), 8): b[:8]},
        "@8[sp+6]=b": {m.ExprMem(sp + m.ExprInt(6, 32), 8): b[:8]},
        "@8[sp+7]=b": {m.ExprMem(sp + m.ExprInt(7, 32), 8): b[:8]},
        "@16[sp+6]=b": {m.ExprMem(sp + m.ExprInt(6, 32), 16): b[:16]},
        "r=@[sp+4]": {r: m.ExprMem(sp + m.ExprInt(4, 32), 32)},
        "r=@8[sp+6]": {r: m.ExprMem(sp + m.ExprInt(6, 32), 8).zeroExtend(32)},
        "r=@16[sp+6]": {r: m.ExprMem(sp + m.ExprInt(6, 32), 16).zeroExtend(32)},
        # a definition CONTAINING a memory read (not a bare one), save / restore copies through another register
        "r=@[sp+4]+1": {r: m.ExprMem(sp + m.ExprInt(4, 32), 32) + one},
        "a=@[sp+4]+1": {a: m.ExprMem(sp + m.ExprInt(4, 32), 32) + one},
        "r=zx@8[sp+5]": {r: m.ExprMem(sp + m.ExprInt(5, 32), 8).zeroExtend(32)},
        "c=r": {c: r},
        "r=c": {r: c},
        "c=a": {c: a},
        "@[sp+4]=0": {m.ExprMem(sp + m.ExprInt(4, 32), 32): m.ExprInt(0, 32)},
        # one symbolic base (a): a constant at base+0, wider stores at negative displacements straddling the base, reload
        "@[a]=5": {m.ExprMem(a, 32): m.ExprInt(5, 32)},
        "@[a-3]=b": {m.ExprMem(a + m.ExprInt(0xFFFFFFFD, 32), 32): b},
        "@[a-2]=b": {m.ExprMem(a + m.ExprInt(0xFFFFFFFE, 32), 32): b},
        "c=@[a]": {c: m.ExprMem(a, 32)},
        "r=c+1": {r: c + one},
        "zf=0": {zf: m.ExprInt(0, 1)},
        "zf=1": {zf: m.ExprInt(1, 1)},
        "a=5": {a: m.ExprInt(5, 32)},
        "b=5": {b: m.ExprInt(5, 32)},
        "b=2": {b: m.ExprInt(2, 32)},
        "r=b+1": {r: b + one},
        "sp=sp-4": {sp: sp - m.ExprInt(4, 32)},
        "sp=sp+4": {sp: sp + m.ExprInt(4, 32)},
        "a=a<<1": {a: a << one},
        "a=-a": {a: -a},
        "r=call(a)": {r: m.ExprOp("call_func_ret", m.ExprInt(0x1000, 32), a)},
        # read-modify-write of a memory cell whose stored bytes are NON byte-aligned slices of the same cell (C12/C13)
        "@[sp+4]=@[sp+4]>>4": {m.ExprMem(sp + m.ExprInt(4, 32), 32): m.ExprMem(sp + m.ExprInt(4, 32), 32) >> m.ExprInt(4, 32)},
        "@[sp+4]=@[sp+4]<<4": {m.ExprMem(sp + m.ExprInt(4, 32), 32): m.ExprMem(sp + m.ExprInt(4, 32), 32) << m.ExprInt(4, 32)},
        "@8[sp+5]=@[sp+4][12:20]": {m.ExprMem(sp + m.ExprInt(5, 32), 8): m.ExprMem(sp + m.ExprInt(4, 32), 32)[12:20]},
        "@[a]=@[a]>>1": {m.ExprMem(a, 32): m.ExprMem(a, 32) >> one},
        # word-wise copy a -> sp (stored values are memory cells with contiguous sources) and misaligned reads of the copy
        "@[sp+4]=@[a]": {m.ExprMem(sp + m.ExprInt(4, 32), 32): m.ExprMem(a, 32)},
        "@[sp+8]=@[a+4]": {m.ExprMem(sp + m.ExprInt(8, 32), 32): m.ExprMem(a + m.ExprInt(4, 32), 32)},
        "b=@[sp+5]": {b: m.ExprMem(sp + m.ExprInt(5, 32), 32)},
        "b=@[sp+6]": {b: m.ExprMem(sp + m.ExprInt(6, 32), 32)},
        "r=@16[sp+7]": {r: m.ExprMem(sp + m.ExprInt(7, 32), 16).zeroExtend(32)},
        # a pointer register copied, then advanced (or swapped), then memory read through both registers in ONE AssignBlock
        "a=a+4": {a: a + m.ExprInt(4, 32)},
        "r=@[a]+@[c]": {r: m.ExprMem(a, 32) + m.ExprMem(c, 32)},
        "r=@[a],b=@[c]": {r: m.ExprMem(a, 32), b: m.ExprMem(c, 32)},
        "r=@[c]": {r: m.ExprMem(c, 32)},
        "r=@[a]+@[b]": {r: m.ExprMem(a, 32) + m.ExprMem(b, 32)},
        "r=@[b]-@[a]": {r: m.ExprMem(b, 32) - m.ExprMem(a, 32)},
        # a pointer saved in another register before being advanced, then used ONLY as the address of a store (C37 copy-folded family)
        "@[c]=b": {m.ExprMem(c, 32): b},
        "@[c]=1": {m.ExprMem(c, 32): one},
        "@[r]=a": {m.ExprMem(r, 32): a},
    }
    return [(n, table[n]) for n in names]


def bodies(alphabet, maxlen):
    """All bodies: sequences of <= maxlen alphabet entries (as index tuples), shortest first."""
    out = []
    for l in range(maxlen + 1):
        out.extend(itertools.product(range(len(alphabet)), repeat=l))
    return out


def cond_alphabet(A, names):
    m = E()
    table = {
        "a": A.a,
        "b": A.b,
        "zf": A.zf,
        "a==b": m.ExprOp("==", A.a, A.b),
        "a<u2": m.ExprOp("<u", A.a, m.ExprInt(2, 32)),
        "@[sp+4]": m.ExprMem(A.sp + m.ExprInt(4, 32), 32),
        # literal conditions: one of the two edges is statically dead
        "0": m.ExprInt(0, 32),
        "1": m.ExprInt(1, 32),
    }
    return [(n, table[n]) for n in names]


class Built(object):
    pass


def build(shape, body_idx, cond_idx, alphabet, conds, ret_block=True, loc_db=None, end_const=False, merge_irdst=False):
    """Build a real IRCFG.  body_idx[i]: tuple of alphabet indexes for block i; cond_idx[i]: index into conds
    for blocks with two successors.  Returns an object with ircfg, lifter, arch, loc_db, locs, head."""
    from miasm.core.locationdb import LocationDB
    from miasm.ir.ir import IRBlock, AssignBlock
    m = E()
    loc_db = loc_db or LocationDB()
    lifter, A = make_lifter(loc_db)
    alph = assign_alphabet(A, alphabet)
    cnd = cond_alphabet(A, conds)
    n = len(shape)
    locs = [loc_db.add_location("lbl%d" % i, i * 0x10) for i in range(n)]
    ircfg = lifter.new_ircfg()
    for i in range(n):
        blks = [AssignBlock(dict(alph[k][1])) for k in body_idx[i]]
        succ = shape[i]
        if len(succ) == 0:
            dst = m.ExprInt(0xDEAD0000, 32) if end_const else A.END
        elif len(succ) == 1:
            dst = m.ExprLoc(locs[succ[0]], 32)
        else:
            dst = m.ExprCond(cnd[cond_idx[i]][1], m.ExprLoc(locs[succ[0]], 32), m.ExprLoc(locs[succ[1]], 32))
        if merge_irdst and blks:
            # IRDst shares the last AssignBlock of the body (parallel semantics: the condition reads the values the
            # registers had BEFORE that AssignBlock), the usual shape of lifted `loop` / `dec; jnz` / `call`
            last = dict(blks[-1])
            last[A.IRDst] = dst
            blks[-1] = AssignBlock(last)
        else:
            blks.append(AssignBlock({A.IRDst: dst}))
        ircfg.add_irblock(IRBlock(loc_db, locs[i], blks))
    out = Built()
    out.ircfg, out.lifter, out.arch, out.loc_db, out.locs, out.head = ircfg, lifter, A, loc_db, locs, locs[0]
    out.shape, out.body_idx, out.cond_idx = shape, body_idx, cond_idx
    out.alphabet, out.conds = alphabet, conds
    return out


def describe(shape, body_idx, cond_idx, alphabet, conds):
    """Human-readable program text of one lattice member."""
    lines = []
    for i, succ in enumerate(shape):
        body = "; ".join(alphabet[k] for k in body_idx[i])
        if len(succ) == 0:
            t = "END"
        elif len(succ) == 1:
            t = "goto %d" % succ[0]
        else:
            t = "%s ? %d : %d" % (conds[cond_idx[i]], succ[0], succ[1])
        lines.append("B%d: %s -> %s" % (i, body, t))
    return " | ".join(lines)


def enumerate_graphs(n, alphabet, conds, maxlen, shape_filter=None):
    """Yield (shape, body_idx, cond_idx) for the full product."""
    bl = bodies(alphabet, maxlen)
    for shape in shapes(n):
        if shape_filter and not shape_filter(shape):
            continue
        ncond = [len(conds) if len(s) == 2 else 1 for s in shape]
        for body_idx in itertools.product(bl, repeat=n):
            for cond_idx in itertools.product(*[range(k) for k in ncond]):
                yield shape, body_idx, cond_idx
