"""Concrete reference interpreter for miasm IR graphs (section 3.3 of DESIGN.md).

Semantics, written from the documented meaning of IRBlock / AssignBlock:
  * the AssignBlocks of a block execute in order; inside one AssignBlock every source (and every
    destination memory pointer) is evaluated in the state *before* the block, then all assignments
    take effect at once (parallel assignment);
  * memory is a little-endian byte map; an uninitialised byte reads as a deterministic pattern of
    its address (so that two runs agree and different addresses differ);
  * `call_func_*` operators are uninterpreted events: they are recorded with their evaluated
    arguments and return a value that is a fixed function of (operator, arguments);
  * IRDst's value selects the next block; a value that is not a block of the graph ends the run.

Expressions are evaluated by mc.refsem (compiled closures, cached per expression).
"""
from mc import refsem

LOC_BASE = 0x7A000000


class Result(object):
    __slots__ = ("regs", "mem", "writes", "calls", "exit", "path", "fuel_out", "undefined", "assign_seq")

    def observable(self, regs=None):
        return (tuple(self.writes), tuple(self.calls), self.exit, tuple(sorted((str(k), v) for k, v in self.regs.items() if regs is None or k in regs)))


class Interp(object):
    def __init__(self, loc_db=None, default_mem=None):
        self.cache = {}
        self.loc_db = loc_db
        self.default_mem = default_mem or (lambda a: ((a * 0x9D) ^ (a >> 3) ^ 0x5A) & 0xFF)
        self.events = None

    def locval(self, e):
        off = self.loc_db.get_location_offset(e.loc_key) if self.loc_db is not None else None
        if off is not None:
            return off & ((1 << e.size) - 1)
        return (LOC_BASE + e.loc_key.key) & ((1 << e.size) - 1)

    def _xcall(self, name, args, w):
        # a fixed function of (operator, argument values): both graphs of a differential see the same answer
        val = (sum((i + 1) * 0x01000193 * (a + 1) for i, a in enumerate(args)) + len(name) * 0x51) & ((1 << w) - 1)
        if self.events is not None:
            self.events.append((name, tuple(args), val))
        return val

    def ev(self, e, regs, memf):
        ent = self.cache.get(e)
        if ent is None:
            ids = tuple(sorted(refsem.free_ids(e), key=lambda x: x.name))
            ent = (ids, refsem.compile_expr(e, list(ids), loc=self.locval, xcall=self._xcall))
            self.cache[e] = ent
        ids, f = ent
        return f(tuple([regs[i] for i in ids]), memf)

    def run(self, ircfg, head, regs, mem=None, fuel=64, irdst=None):
        """regs: dict ExprId -> int (every identifier the program reads must be present);
        mem: dict addr -> byte (copied). Returns Result."""
        irdst = irdst if irdst is not None else ircfg.IRDst
        regs = dict(regs)
        mem = dict(mem or {})
        res = Result()
        res.writes, res.calls, res.path = [], [], []
        res.fuel_out = False
        res.undefined = False
        res.assign_seq = {}
        seq = 0
        dm = self.default_mem

        def memf(ps, a):
            b = mem.get(a)
            return dm(a) if b is None else b

        # map loc value -> loc_key for the blocks of this graph
        import miasm.expression.expression as m
        loc2key = {}
        for lk in ircfg.blocks:
            loc2key[self.locval(m.ExprLoc(lk, irdst.size))] = lk
        cur = head
        steps = 0
        self.events = res.calls
        try:
            while True:
                blk = ircfg.blocks.get(cur)
                if blk is None:
                    res.exit = ("loc", str(cur))
                    break
                if steps >= fuel:
                    res.fuel_out = True
                    res.exit = ("fuel", str(cur))
                    break
                steps += 1
                res.path.append(cur)
                nxt = None
                for assignblk in blk:
                    newregs = []
                    newmem = []
                    for dst, src in assignblk.items():
                        val = self.ev(src, regs, memf)
                        if dst.is_mem():
                            addr = self.ev(dst.ptr, regs, memf)
                            newmem.append((addr, dst.size, val))
                        else:
                            newregs.append((dst, val))
                    for dst, val in newregs:
                        if dst == irdst:
                            nxt = val
                        else:
                            regs[dst] = val
                            seq += 1
                            res.assign_seq[dst] = seq
                    for addr, size, val in sorted(newmem):
                        res.writes.append((addr, size, val))
                        for i in range(size // 8):
                            mem[(addr + i) & 0xFFFFFFFF] = (val >> (8 * i)) & 0xFF
                if nxt is None:
                    res.exit = ("no-irdst", str(cur))
                    break
                if nxt in loc2key:
                    cur = loc2key[nxt]
                else:
                    res.exit = ("value", nxt)
                    break
        except refsem.Undefined:
            res.undefined = True
            res.exit = ("undefined", str(cur))
        finally:
            self.events = None
        res.regs = regs
        res.mem = mem
        return res
