"""Helpers shared by the differential jitter checks (C20 backend agreement, C21 partition independence).

    load(exts)             activate the shadow tree, import miasm, silence the C runtime (call in run()/replay(), before forking)
    fresh_jitter(...)      a new Jitter whose process-global side effects of earlier jitters are undone
    execute(jit, start)    run until the END sentinel / a fault / the dispatch budget, collect an Obs
    snapshot/restore       save and put back registers + memory of a jitter (warm-start schedules)
    diff(a, b)             which observable components differ between two Obs
    is_subsequence(t, r)   order-preserving subsequence test for dispatch traces
"""
from mc import jitprog as J

_state = {}


def load(exts):
    """Shadow tree first (C code of the working tree), then miasm. Idempotent."""
    if _state:
        return _state
    from mc import native
    native.activate(list(exts))
    from miasm.expression.simplifications import expr_simp_explicit
    from miasm.analysis.machine import Machine   # noqa: F401  (imported before forking: workers share it)
    _state["simp"] = expr_simp_explicit
    _state["simp_base"] = dict(expr_simp_explicit.expr_simp_cb)
    _state["stderr_fd"] = J.silence_stderr()
    return _state


def fresh_jitter(arch, backend, jit_maxline=None, max_exec_per_call=None, cache_size=None):
    """Every Python-backend Jitter appends two passes (bound to its own cpu) to the module-global
    expr_simp_explicit; putting the pass table back to its import-time value before each new jitter makes a
    case behave as in a fresh process (and keeps the pass list from growing with the number of cases)."""
    simp = _state["simp"]
    simp.expr_simp_cb = dict(_state["simp_base"])
    simp.cache.clear()
    return J.new_jitter(arch, backend, jit_maxline, max_exec_per_call, cache_size)


def execute(jit, start, breakpoints=(), max_dispatch=3000, end=J.END):
    """Like jitprog.run, but usable several times on the same jitter (the END callback is installed once)."""
    obs = J.Obs()
    obs.bp_log = []
    obs.dispatch = []
    obs.error = None
    obs.stopped = None

    def exec_cb(j):
        obs.dispatch.append(j.pc)
        if len(obs.dispatch) > max_dispatch:
            obs.stopped = "budget"
            j.running = False
            return False
        return True

    jit.exec_cb = exec_cb

    def mk(tag, keep):
        def cb(j):
            obs.bp_log.append((tag, j.pc))
            return True if keep else False
        return cb

    for addr, tag, keep in breakpoints:
        jit.add_breakpoint(addr, mk(tag, keep))
    if not getattr(jit, "_verif_end", False):
        def end_cb(j):
            j._verif_stop[0] = "end"
            j.running = False
            return False
        jit.add_breakpoint(end, end_cb)
        jit._verif_end = True
    jit._verif_stop = [None]
    try:
        obs.ret = jit.run(start)
    except Exception as e:     # JitterException (unhandled exception flags) or an error escaping the backend
        obs.ret = None
        obs.error = "%s: %s" % (type(e).__name__, e)
    if obs.stopped is None:
        obs.stopped = jit._verif_stop[0]
    J.collect(jit, obs)
    return obs


def snapshot(jit):
    regs = dict(jit.cpu.get_gpreg())
    mem = {a: (d["access"], bytes(d["data"])) for a, d in jit.vm.get_all_memory().items()}
    return regs, mem


def restore(jit, snap, skip_pages=()):
    """Put registers and memory contents back (host side), clear pending exception flags and access logs."""
    regs, mem = snap
    jit.vm.set_exception(0)
    jit.cpu.set_exception(0)
    for a, (access, data) in mem.items():
        if a in skip_pages:
            continue
        jit.vm.set_mem(a, data)
    jit.vm.set_exception(0)          # a host write over translated code raises the automod flag
    jit.vm.reset_memory_access()
    jit.cpu.set_gpreg(regs)
    got = dict(jit.cpu.get_gpreg())
    if got != regs:
        raise RuntimeError("register restore failed: %r" % sorted(k for k in regs if regs[k] != got.get(k)))


def diff(a, b, ignore_regs=()):
    """Names of the observable components in which two runs differ (empty list: identical)."""
    out = []
    ra = {k: v for k, v in a.regs.items() if k not in ignore_regs}
    rb = {k: v for k, v in b.regs.items() if k not in ignore_regs}
    if ra != rb:
        out.append("regs")
    ma = {k: bytes(d["data"]) for k, d in a.mem.items()}
    mb = {k: bytes(d["data"]) for k, d in b.mem.items()}
    if ma != mb:
        out.append("mem")
    if {k: d["access"] for k, d in a.mem.items()} != {k: d["access"] for k, d in b.mem.items()}:
        out.append("perm")
    if a.cpu_exc != b.cpu_exc:
        out.append("cpu_exc")
    if a.vm_exc != b.vm_exc:
        out.append("vm_exc")
    if a.bp_log != b.bp_log:
        out.append("bp_log")
    return out


def describe_diff(a, b, names=("a", "b")):
    parts = []
    for k in sorted(set(a.regs) | set(b.regs)):
        if a.regs.get(k) != b.regs.get(k):
            parts.append("%s: %s=%#x %s=%#x" % (k, names[0], a.regs.get(k, -1), names[1], b.regs.get(k, -1)))
    for page in sorted(set(a.mem) | set(b.mem)):
        da = bytes(a.mem[page]["data"]) if page in a.mem else b""
        db = bytes(b.mem[page]["data"]) if page in b.mem else b""
        if da != db:
            idx = [i for i in range(max(len(da), len(db))) if da[i:i + 1] != db[i:i + 1]]
            lo, hi = idx[0], idx[-1] + 1
            parts.append("mem[%#x..%#x): %s=%s %s=%s" % (page + lo, page + hi, names[0], da[lo:hi].hex(), names[1], db[lo:hi].hex()))
    if a.cpu_exc != b.cpu_exc:
        parts.append("cpu exception flags: %s=%#x %s=%#x" % (names[0], a.cpu_exc, names[1], b.cpu_exc))
    if a.vm_exc != b.vm_exc:
        parts.append("vm exception flags: %s=%#x %s=%#x" % (names[0], a.vm_exc, names[1], b.vm_exc))
    if a.bp_log != b.bp_log:
        parts.append("breakpoint hits: %s=%r %s=%r" % (names[0], a.bp_log, names[1], b.bp_log))
    return "; ".join(parts[:8]) + (" ..." if len(parts) > 8 else "")


def is_subsequence(t, r):
    it = iter(r)
    return all(any(x == y for y in it) for x in t)
