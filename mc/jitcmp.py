"""Helpers shared by the differential jitter checks (C20 backend agreement, C21 partition independence).

    load(exts)             activate the shadow tree, import miasm, silence the C runtime (call in run()/replay(), before forking)
    fresh_jitter(...)      a new Jitter whose process-global side effects of earlier jitters are undone
    execute(jit, start)    run until the END sentinel / a fault / the dispatch budget, collect an Obs
    snapshot/restore       save and put back registers + memory of a jitter (warm-start schedules)
    summary(obs)           compact exact image of an Obs (what workers send back)
    diff(a, b)             which observable components differ between two summaries
    is_subsequence(t, r)   order-preserving subsequence test for dispatch traces
"""
from mc import jitprog as J

_state = {}


def load(exts):
    """Shadow tree first (C code of the working tree), then miasm. Idempotent."""
    if _state:
        return _state
    from mc import native
    native.activate(list(exts))
    from miasm.expression.simplifications import expr_simp_explicit
    from miasm.analysis.machine import Machine   # noqa: F401  (imported before forking: workers share it)
    _state["simp"] = expr_simp_explicit
    _state["simp_base"] = dict(expr_simp_explicit.expr_simp_cb)
    # the C runtime reports every fault on fd 2: silence it, but keep Python's own sys.stderr (tracebacks) alive
    import os
    import sys
    sys.stderr.flush()
    saved = J.silence_stderr()
    _state["stderr_fd"] = saved
    sys.stderr = os.fdopen(saved, "w", buffering=1)
    return _state


_asm_cache = {}


def assemble(arch, src, base=J.CODE, room=0x400):
    """Like jitprog.assemble, but every block chain is placed inside [base, base+room) (jitprog's version pins only
    `main`, so chains that are not reached by fall-through land at address 0). `main` is pinned at @base.
    Returns (bytes loaded at @base, {label: address}, sorted instruction addresses)."""
    key = (arch, src, base, room)
    if key in _asm_cache:
        return _asm_cache[key]
    from miasm.analysis.machine import Machine
    from miasm.core import parse_asm, asmblock
    from miasm.core.locationdb import LocationDB
    from miasm.core.interval import interval
    m = Machine(arch)
    loc_db = LocationDB()
    asmcfg = parse_asm.parse_txt(m.mn, int(arch.split("_")[-1]), src, loc_db)
    loc_db.set_location_offset(loc_db.get_name_location("main"), base)
    patches = asmblock.asm_resolve_final(m.mn, asmcfg, dst_interval=interval([(base, base + room - 1)]))
    if min(patches) != base:
        raise RuntimeError("assembler placed code below the base address")
    hi = max(o + len(b) for o, b in patches.items())
    buf = bytearray(b"\x90" * (hi - base))
    for o, b in patches.items():
        buf[o - base:o - base + len(b)] = b
    labels = {}
    for name in loc_db.names:
        off = loc_db.get_location_offset(loc_db.get_name_location(name))
        if off is not None:
            labels[name] = off
    out = (bytes(buf), labels, sorted(patches))
    _asm_cache[key] = out
    return out


def fresh_jitter(arch, backend, jit_maxline=None, max_exec_per_call=None, cache_size=None):
    """Every Python-backend Jitter appends two passes (bound to its own cpu) to the module-global
    expr_simp_explicit; putting the pass table back to its import-time value before each new jitter makes a
    case behave as in a fresh process (and keeps the pass list from growing with the number of cases)."""
    simp = _state["simp"]
    simp.expr_simp_cb = dict(_state["simp_base"])
    simp.cache.clear()
    return J.new_jitter(arch, backend, jit_maxline, max_exec_per_call, cache_size)


def execute(jit, start, breakpoints=(), max_dispatch=3000, end=J.END):
    """Like jitprog.run, but usable several times on the same jitter (the END callback is installed once)."""
    obs = J.Obs()
    obs.bp_log = []
    obs.dispatch = []
    obs.error = None
    obs.stopped = None

    def exec_cb(j):
        obs.dispatch.append(j.pc)
        if len(obs.dispatch) > max_dispatch:
            obs.stopped = "budget"
            j.running = False
            return False
        return True

    jit.exec_cb = exec_cb

    def mk(tag, keep):
        def cb(j):
            obs.bp_log.append((tag, j.pc))
            return True if keep else False
        return cb

    for addr, tag, keep in breakpoints:
        jit.add_breakpoint(addr, mk(tag, keep))
    if not getattr(jit, "_verif_end", False):
        def end_cb(j):
            j._verif_stop[0] = "end"
            j.running = False
            return False
        jit.add_breakpoint(end, end_cb)
        jit._verif_end = True
    jit._verif_stop = [None]
    try:
        obs.ret = jit.run(start)
    except Exception as e:     # JitterException (unhandled exception flags) or an error escaping the backend
        obs.ret = None
        obs.error = "%s: %s" % (type(e).__name__, e)
    if obs.stopped is None:
        obs.stopped = jit._verif_stop[0]
    J.collect(jit, obs)
    return obs


def snapshot(jit):
    regs = dict(jit.cpu.get_gpreg())
    mem = {a: (d["access"], bytes(d["data"])) for a, d in jit.vm.get_all_memory().items()}
    return regs, mem


def restore(jit, snap, skip_pages=()):
    """Put registers and memory contents back (host side), clear pending exception flags and access logs."""
    regs, mem = snap
    jit.vm.set_exception(0)
    jit.cpu.set_exception(0)
    for a, (access, data) in mem.items():
        if a in skip_pages:
            continue
        jit.vm.set_mem(a, data)
    jit.vm.set_exception(0)          # a host write over translated code raises the automod flag
    jit.vm.reset_memory_access()
    jit.cpu.set_gpreg(regs)
    got = dict(jit.cpu.get_gpreg())
    if got != regs:
        raise RuntimeError("register restore failed: %r" % sorted(k for k in regs if regs[k] != got.get(k)))


def summary(obs):
    """Compact, picklable, exact image of an Obs: registers, exception flags, jitter pc, how the run ended, the
    dispatch trace, breakpoint log and every page as (access, size, ((offset, byte) for the non-zero bytes))."""
    mem = {}
    for a, d in obs.mem.items():
        data = bytes(d["data"])
        mem[a] = (d["access"], len(data), tuple((i, b) for i, b in enumerate(data) if b))
    if obs.stopped:
        term = obs.stopped
    else:
        term = (obs.error or "none").split(":")[0]
    return {"regs": dict(obs.regs), "cpu_exc": obs.cpu_exc, "vm_exc": obs.vm_exc, "pc": obs.pc, "term": term,
            "error": obs.error, "dispatch": tuple(obs.dispatch), "bp_log": tuple(tuple(x) for x in obs.bp_log), "mem": mem}


def diff(a, b):
    """Names of the observable components in which two run summaries differ (empty list: identical)."""
    out = []
    if a["regs"] != b["regs"]:
        out.append("regs")
    if {k: v[1:] for k, v in a["mem"].items()} != {k: v[1:] for k, v in b["mem"].items()}:
        out.append("mem")
    if {k: v[0] for k, v in a["mem"].items()} != {k: v[0] for k, v in b["mem"].items()}:
        out.append("perm")
    if a["cpu_exc"] != b["cpu_exc"]:
        out.append("cpu_exc")
    if a["vm_exc"] != b["vm_exc"]:
        out.append("vm_exc")
    if a["bp_log"] != b["bp_log"]:
        out.append("bp_log")
    return out


def _page_bytes(page):
    buf = bytearray(page[1])
    for i, b in page[2]:
        buf[i] = b
    return bytes(buf)


def describe_diff(a, b, names=("a", "b")):
    parts = []
    for k in sorted(set(a["regs"]) | set(b["regs"])):
        if a["regs"].get(k) != b["regs"].get(k):
            parts.append("%s: %s=%#x %s=%#x" % (k, names[0], a["regs"].get(k, -1), names[1], b["regs"].get(k, -1)))
    for page in sorted(set(a["mem"]) | set(b["mem"])):
        da = _page_bytes(a["mem"][page]) if page in a["mem"] else b""
        db = _page_bytes(b["mem"][page]) if page in b["mem"] else b""
        if da != db:
            idx = [i for i in range(max(len(da), len(db))) if da[i:i + 1] != db[i:i + 1]]
            lo, hi = idx[0], idx[-1] + 1
            parts.append("mem[%#x..%#x): %s=%s %s=%s" % (page + lo, page + hi, names[0], da[lo:hi].hex(), names[1], db[lo:hi].hex()))
    if a["cpu_exc"] != b["cpu_exc"]:
        parts.append("cpu exception flags: %s=%#x %s=%#x" % (names[0], a["cpu_exc"], names[1], b["cpu_exc"]))
    if a["vm_exc"] != b["vm_exc"]:
        parts.append("vm exception flags: %s=%#x %s=%#x" % (names[0], a["vm_exc"], names[1], b["vm_exc"]))
    if a["bp_log"] != b["bp_log"]:
        parts.append("breakpoint hits: %s=%s %s=%s" % (names[0], [(t, hex(p)) for t, p in a["bp_log"]], names[1],
                                                       [(t, hex(p)) for t, p in b["bp_log"]]))
    return "; ".join(parts[:8]) + (" ..." if len(parts) > 8 else "")


def is_subsequence(t, r):
    it = iter(r)
    return all(any(x == y for y in it) for x in t)
