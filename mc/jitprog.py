"""Shared harness for the jitter checks (C20-C23, C49, C41): assemble small programs with miasm's
own assembler, run them under a chosen backend/configuration on the *shadow tree* (mc/native.py),
and collect the observables the properties talk about.

    native.activate([...]) must have been called by the check before importing this module's users.

Observables of a run (`Obs`): final general-purpose registers, pc, cpu/vm exception flags, contents and
permissions of every mapped page, the breakpoint-hit log and the dispatch trace (pc at every run_at).
"""
import os

CODE = 0x1000          # code page base
DATA = 0x2000          # data page base (one page of DATA_SIZE bytes)
DATA_SIZE = 0x40
STACK_BASE = 0x1230000
END = 0x1337BEE0       # return sentinel (never mapped)

R, W, X = 1, 2, 4

_asm_cache = {}


def assemble(arch, src, base=CODE):
    """Assemble @src (text) for machine @arch at @base; returns (bytes, {label: offset}, [instruction offsets])."""
    key = (arch, src, base)
    if key in _asm_cache:
        return _asm_cache[key]
    from miasm.analysis.machine import Machine
    from miasm.core import parse_asm, asmblock
    from miasm.core.locationdb import LocationDB
    from miasm.core.interval import interval
    m = Machine(arch)
    loc_db = LocationDB()
    asmcfg = parse_asm.parse_txt(m.mn, m.dis_engine.attrib if hasattr(m.dis_engine, "attrib") else int(arch.split("_")[-1].rstrip("lb") or 32), src, loc_db)
    loc_db.set_location_offset(loc_db.get_name_location("main"), base)
    patches = asmblock.asm_resolve_final(m.mn, asmcfg)
    lo = min(patches)
    hi = max(o + len(b) for o, b in patches.items())
    buf = bytearray(b"\x90" * (hi - lo)) if arch.startswith("x86") else bytearray(hi - lo)
    for o, b in patches.items():
        buf[o - lo:o - lo + len(b)] = b
    labels = {}
    for name in loc_db.names:
        off = loc_db.get_location_offset(loc_db.get_name_location(name))
        if off is not None:
            labels[name] = off
    out = (bytes(buf), labels, sorted(patches))
    _asm_cache[key] = out
    return out


class Obs(object):
    __slots__ = ("regs", "pc", "cpu_exc", "vm_exc", "mem", "bp_log", "dispatch", "stopped", "error", "ret")

    def final_state(self, ignore_regs=()):
        return (tuple(sorted((k, v) for k, v in self.regs.items() if k not in ignore_regs)), self.cpu_exc, self.vm_exc,
                tuple(sorted((a, d["access"], bytes(d["data"])) for a, d in self.mem.items())))

    def describe(self):
        return "pc=%s cpu_exc=%#x vm_exc=%#x regs=%s bp_log=%s" % (
            hex(self.pc) if self.pc is not None else None, self.cpu_exc, self.vm_exc,
            {k: hex(v) for k, v in sorted(self.regs.items()) if v}, [hex(x) if isinstance(x, int) else x for x in self.bp_log])


def new_jitter(arch, backend, jit_maxline=None, max_exec_per_call=None, cache_size=None):
    """Fresh jitter on the current (shadow) tree; stderr chatter of the C runtime is left to the caller."""
    from miasm.analysis.machine import Machine
    from miasm.core.locationdb import LocationDB
    from miasm.core.utils import BoundedDict
    jit = Machine(arch).jitter(LocationDB(), backend)
    if jit_maxline is not None:
        jit.jit.set_options(jit_maxline=jit_maxline)
    if max_exec_per_call is not None:
        jit.jit.set_options(max_exec_per_call=max_exec_per_call)
    if cache_size is not None:
        jit.jit.offset_to_jitted_func = BoundedDict(cache_size, delete_cb=jit.jit.jitted_block_delete_cb)
    return jit


def setup(jit, code, regs=None, data=None, data_perm=R | W, map_data=True, code_perm=R | W | X, stack=True,
          code_base=CODE, extra_pages=()):
    """Map code/data/stack, set registers, push the END sentinel as return address (x86 only)."""
    jit.vm.add_memory_page(code_base, code_perm, code, "code")
    if map_data:
        jit.vm.add_memory_page(DATA, data_perm, data if data is not None else bytes((i * 7 + 3) & 0xFF for i in range(DATA_SIZE)), "data")
    for (a, perm, content) in extra_pages:
        jit.vm.add_memory_page(a, perm, content, "extra")
    if stack:
        jit.stack_base = STACK_BASE
        jit.stack_size = 0x1000
        jit.init_stack()
    for k, v in (regs or {}).items():
        setattr(jit.cpu, k, v)
    if stack and jit.arch.name == "x86":
        if jit.attrib == 64:
            jit.push_uint64_t(END)
        else:
            jit.push_uint32_t(END)


def run(jit, start, breakpoints=(), max_dispatch=2000, stop_at_end=True, trace=True):
    """Run from @start until the END sentinel, a False-returning callback, an unhandled exception flag or the
    dispatch budget. @breakpoints: iterable of (addr, tag, keep_running: bool)."""
    obs = Obs()
    obs.bp_log = []
    obs.dispatch = []
    obs.error = None
    obs.stopped = None
    count = [0]

    def exec_cb(j):
        count[0] += 1
        obs.dispatch.append(j.pc)
        if count[0] > max_dispatch:
            obs.stopped = "budget"
            j.running = False
            return False
        return True

    if trace:
        jit.exec_cb = exec_cb

    def mk(tag, keep):
        def cb(j):
            obs.bp_log.append((tag, j.pc))
            return True if keep else False
        return cb

    for addr, tag, keep in breakpoints:
        jit.add_breakpoint(addr, mk(tag, keep))
    if stop_at_end:
        def end_cb(j):
            obs.stopped = "end"
            j.running = False
            return False
        jit.add_breakpoint(END, end_cb)
    try:
        obs.ret = jit.run(start)
    except Exception as e:     # JitterException (pending exception flags), or a real crash
        obs.ret = None
        obs.error = "%s: %s" % (type(e).__name__, e)
    collect(jit, obs)
    return obs


def collect(jit, obs):
    obs.regs = dict(jit.cpu.get_gpreg())
    obs.pc = getattr(jit, "pc", None)
    obs.cpu_exc = jit.cpu.get_exception()
    obs.vm_exc = jit.vm.get_exception()
    mem = {}
    for a, d in jit.vm.get_all_memory().items():
        mem[a] = {"access": d["access"], "data": bytes(d["data"])}
    obs.mem = mem
    return obs


def silence_stderr():
    """The C runtime reports faults on stderr; send fd 2 to /dev/null (returns the saved fd)."""
    saved = os.dup(2)
    devnull = os.open(os.devnull, os.O_WRONLY)
    os.dup2(devnull, 2)
    os.close(devnull)
    return saved
