"""Extras shared by the jitter checks C22 / C23 / C49 (on top of mc/native.py and mc/jitprog.py).

  activate(exts)            shadow tree + silenced C runtime, idempotent, call before importing miasm
  fresh(arch, backend, ..)  new jitter with the module-global simplifier passes of the Python backend reset first
                            (every JitCore_Python appends two bound methods to expr_simp_explicit; thousands of
                            jitters in one worker would otherwise pile up stale passes)
  precompile(ctx, jobs)     warm the GCC backend's on-disk block cache in parallel: one job = one block,
                            (arch, code bytes, base, start, split addresses, jit_maxline); a block is keyed by
                            (start offset, bytes), so a miss later only costs time, never changes a verdict
  block_jobs(arch, code, base, offsets, breakers)   precompile jobs for every block the jitter can cut out of @code
"""
import os

_state = {}


def activate(exts=("JitCore_x86",)):
    from mc import native
    native.activate(list(exts))
    if "silenced" not in _state:
        from mc import jitprog
        _state["silenced"] = jitprog.silence_stderr()
    return native


def reset_python_passes():
    from miasm.expression.simplifications import expr_simp_explicit
    if "passes" not in _state:
        _state["passes"] = {k: list(v) for k, v in expr_simp_explicit.expr_simp_cb.items()}
    expr_simp_explicit.expr_simp_cb = {k: list(v) for k, v in _state["passes"].items()}
    expr_simp_explicit.cache.clear()


def fresh(arch, backend, jit_maxline=None, max_exec_per_call=None):
    from mc import jitprog
    if backend == "python":
        reset_python_passes()
    return jitprog.new_jitter(arch, backend, jit_maxline=jit_maxline, max_exec_per_call=max_exec_per_call)


def _warm(job):
    arch, code, base, start, splits, maxline = job
    from mc import jitprog
    try:
        jit = jitprog.new_jitter(arch, "gcc", jit_maxline=maxline)
        jit.vm.add_memory_page(base, 7, bytes(code), "code")
        jit.jit.add_disassembly_splits(*splits)
        jit.jit.disasm_and_jit_block(start, jit.vm)
        return 1
    except Exception:
        return 0


def precompile(ctx, jobs):
    """Compile every distinct block of @jobs once (parallel). Returns the number of blocks compiled."""
    seen = set()
    uniq = []
    for j in jobs:
        k = (j[0], bytes(j[1]), j[2], j[3], tuple(sorted(j[4])), j[5])
        if k not in seen:
            seen.add(k)
            uniq.append((j[0], bytes(j[1]), j[2], j[3], tuple(sorted(j[4])), j[5]))
    if not uniq:
        return 0
    return sum(ctx.pmap(_warm, uniq))


def block_jobs(arch, code, base, offsets, breakers, extra_splits=()):
    """One precompile job per block [s..e] the jitter can meet on @code: every start offset s and every end e up to
    the first flow-breaking instruction (offsets in @breakers); the end is forced by a split at the next offset. The
    GCC cache key is (start offset, block bytes): how the block came to end there (split, jit_maxline) is irrelevant."""
    jobs = []
    offs = sorted(offsets)
    for i, s in enumerate(offs):
        j = i
        while True:
            nxt = offs[j + 1] if j + 1 < len(offs) else None
            jobs.append((arch, code, base, s, tuple([nxt] if nxt is not None else []) + tuple(extra_splits), 50))
            if offs[j] in breakers or nxt is None:
                break
            j += 1
    return jobs


_asm_cache = {}


def assemble_chained(arch, src, base):
    """Like jitprog.assemble, but the blocks are laid out in source order: a block that does not fall through (it ends
    with RET / JMP) gets a layout-only `next` constraint to the label that follows it in the text, so that code after
    a RET is not placed at an arbitrary address. Returns (bytes, {label: offset}, [instruction offsets])."""
    key = (arch, src, base)
    if key in _asm_cache:
        return _asm_cache[key]
    import re
    from miasm.analysis.machine import Machine
    from miasm.core import parse_asm, asmblock
    from miasm.core.asmblock import AsmConstraint
    from miasm.core.locationdb import LocationDB
    m = Machine(arch)
    loc_db = LocationDB()
    attrib = m.dis_engine.attrib if hasattr(m.dis_engine, "attrib") else int(arch.split("_")[-1].rstrip("lb") or 32)
    asmcfg = parse_asm.parse_txt(m.mn, attrib, src, loc_db)
    names = re.findall(r"^\s*([A-Za-z_][A-Za-z_0-9]*):", src, re.M)
    # walk every chain of fall-through blocks from each label; link the chain's last block to the next label
    for cur, nxt in zip(names, names[1:]):
        block = asmcfg.loc_key_to_block(loc_db.get_name_location(cur))
        seen = set()
        while block is not None and block.loc_key not in seen:
            seen.add(block.loc_key)
            nexts = [c.loc_key for c in block.bto if c.c_t == AsmConstraint.c_next]
            if not nexts:
                dst = loc_db.get_name_location(nxt)
                block.add_cst(dst, AsmConstraint.c_next)
                asmcfg.add_edge(block.loc_key, dst, AsmConstraint.c_next)
                break
            if nexts[0] == loc_db.get_name_location(nxt):
                break
            block = asmcfg.loc_key_to_block(nexts[0])
    loc_db.set_location_offset(loc_db.get_name_location(names[0]), base)
    patches = asmblock.asm_resolve_final(m.mn, asmcfg)
    lo = min(patches)
    hi = max(o + len(b) for o, b in patches.items())
    if lo != base:
        raise RuntimeError("assemble_chained: code starts at %#x, not at %#x" % (lo, base))
    buf = bytearray(hi - lo)
    for o, b in patches.items():
        buf[o - lo:o - lo + len(b)] = b
    labels = {n: loc_db.get_location_offset(loc_db.get_name_location(n)) for n in names}
    out = (bytes(buf), labels, sorted(patches))
    _asm_cache[key] = out
    return out
