"""Regenerate /verif/MANIFEST.json from the check modules present in checks/.

    /venv/bin/python -m mc.manifest_gen

Every module declares PROP, LEVEL, LEVEL_TEXT, LEVEL_NOTE, TECHNIQUE (and optionally DESIGN_REF).
Properties without a module are listed under not_applicable with the reason from NOT_APPLICABLE
below (or "not built yet").
"""
import glob
import importlib
import json
import os
import sys

ROOT = os.path.dirname(os.path.dirname(os.path.abspath(__file__)))
sys.path.insert(0, ROOT)

NOT_APPLICABLE = {
    "C19": "The property's oracle is an independent reference CPU emulator for ARM/Thumb/AArch64/MIPS32/PowerPC; "
           "none exists in the sealed image (no unicorn/qemu/simulators; llvm-mc only decodes) and nothing can be "
           "fetched. Exhaustive enumeration against a second, unvalidated hand-written five-ISA model would make every "
           "disagreement undecidable between 'miasm wrong' and 'model wrong', i.e. it could not be a sound alarm. "
           "See DESIGN.md section 5.",
}
NOT_BUILT = "check not built yet in this round (design in DESIGN.md section 4); not claimed"

BASELINE_CMD = ("cd /repo && /venv/bin/python -m pytest -ra -q -p no:cacheprovider --timeout=900 "
                "--continue-on-collection-errors")


def main():
    props = [json.loads(l) for l in open(os.path.join(ROOT, "properties.jsonl"))]
    ids = [p["id"] for p in props]
    mods = {}
    # only checks validated on the unchanged tree (listed in ready.txt) are registered
    ready = set(l.split()[0] for l in open(os.path.join(ROOT, "ready.txt")) if l.strip() and not l.startswith("#"))
    for path in sorted(glob.glob(os.path.join(ROOT, "checks", "c[0-9]*.py"))):
        name = os.path.splitext(os.path.basename(path))[0]
        m = importlib.import_module("checks." + name)
        if getattr(m, "DISABLED", False):
            continue
        if m.PROP not in ready:
            continue
        mods[m.PROP] = m
    checks = []
    na = []
    for pid in ids:
        m = mods.get(pid)
        if m is None:
            na.append({"property_id": pid, "reason": NOT_APPLICABLE.get(pid, NOT_BUILT)})
            continue
        checks.append({
            "property_id": pid,
            "quick_cmd": "./check %s --tier quick" % pid,
            "thorough_cmd": "./check %s --tier thorough" % pid,
            "evidence_file": "/verif/evidence/%s.json" % pid,
            "replay_cmd_template": "./check %s --replay {path}" % pid,
            "engine": getattr(m, "ENGINE", "enum"),
            "level_claimed": {
                "category": m.LEVEL,
                "text": m.LEVEL_TEXT,
                "design_ref": getattr(m, "DESIGN_REF", "DESIGN.md section 4, " + pid),
            },
            "level_note": m.LEVEL_NOTE,
            "technique": m.TECHNIQUE,
        })
    hooks_commits = []
    hc = os.path.join(ROOT, "hooks_commits.txt")
    if os.path.exists(hc):
        hooks_commits = [l.split()[0] for l in open(hc) if l.strip() and not l.startswith("#")]
    manifest = {
        "version": 1,
        "setup_cmd": "./setup.sh",
        "hooks": {
            "guard": "CEA_SEC_MIASM_VERIF",
            "enable": "checks export CEA_SEC_MIASM_VERIF=1 (./check does it); no hook is currently compiled into "
                      "/repo: observation is done from outside (wrapping rule tables, shadow-tree rebuilds, C shims "
                      "compiled by the harness from the repository's own sources)",
            "baseline_off_cmd": BASELINE_CMD,
            "source_commits": hooks_commits,
            "add_only": True,
        },
        "engines": [
            {"name": "enum", "path": "mc/runner.py", "kind_free_text":
                "bounded-exhaustive product enumeration of an explicitly described finite lattice of inputs / programs / "
                "configurations, sharded over all cores, every case index-addressable",
             "serves_properties": [c["property_id"] for c in checks if c["engine"] == "enum"]},
            {"name": "bfs", "path": "mc/bfs.py", "kind_free_text":
                "explicit-state breadth-first search over the real implementation's transition functions (a state is the "
                "history that reaches it, rebuilt on fresh real objects), canonical-state hashing, reference model in lock step",
             "serves_properties": [c["property_id"] for c in checks if c["engine"] == "bfs"]},
            {"name": "dev", "path": "mc/runner.py", "kind_free_text":
                "deviation-bounded exploration: default configuration/schedule plus every combination of <= k departures",
             "serves_properties": [c["property_id"] for c in checks if c["engine"] == "dev"]},
        ],
        "checks": checks,
        "not_applicable": na,
        "notes": "All checks: `./check <ID> --tier quick|thorough`; exit 0 held / 1 VIOLATION / 2 harness error. "
                 "Known findings: known_findings.json. VERIF_SEED only permutes shard order.",
    }
    with open(os.path.join(ROOT, "MANIFEST.json"), "w") as fd:
        json.dump(manifest, fd, indent=1)
        fd.write("\n")
    import subprocess
    code = ("import json,jsonschema;jsonschema.validate(json.load(open('%s/MANIFEST.json')),"
            "json.load(open('/root/.vp/MANIFEST.schema.json')));print('MANIFEST.json valid')" % ROOT)
    subprocess.run(["python3-vt", "-c", code], check=True)
    print(len(checks), "checks,", len(na), "not_applicable")


if __name__ == "__main__":
    main()
