"""Shadow tree + extension rebuild for checks that depend on the repository's C code.

The in-place `.so` files under /repo/miasm/jitter are git-ignored build products and may be stale.
`activate(exts)` therefore

  1. hashes every C/H source of miasm/jitter (+ runtime) and the build flags,
  2. compiles the requested extension modules from /repo's *current* sources into
     /verif/.cache/ext/<hash>/ (build-into-temp + atomic rename; a changed source changes the key),
  3. copies /repo/miasm (no .so, no __pycache__) to a private scratch directory outside /repo and
     /verif, drops the freshly built extensions into it, puts it first on sys.path / PYTHONPATH,
  4. points TMPDIR at a private directory (the GCC jitter caches compiled blocks in
     $TMPDIR/miasm_cache keyed by block *bytes*, which would hide any change to the code generator),
  5. removes the scratch directory at exit.

A real copy (not symlinks) is required: jitcore_cc_base.load() links every JIT-compiled block against
dirname(realpath(__file__))/VmMngr.so and arch/JitCore_<arch>.so.

    python -m mc.native --prebuild      # used by setup.sh: warm the extension cache
"""
import atexit
import hashlib
import os
import shutil
import subprocess
import sys
import sysconfig
import tempfile
from concurrent.futures import ThreadPoolExecutor

ROOT = os.path.dirname(os.path.dirname(os.path.abspath(__file__)))
REPO = os.path.realpath(os.environ.get("VERIF_REPO", "/repo"))
CACHE = os.path.join(ROOT, ".cache", "ext")
EXT = sysconfig.get_config_var("EXT_SUFFIX") or ".so"
CFLAGS = ["-O2", "-fPIC", "-shared", "-fno-strict-overflow", "-DNDEBUG", "-w"]

COMMON = ["jitter/JitCore.c", "jitter/vm_mngr.c", "jitter/vm_mngr_py.c", "jitter/op_semantics.c", "jitter/bn.c"]
EXTENSIONS = {
    "VmMngr": ("jitter/VmMngr", ["jitter/vm_mngr.c", "jitter/vm_mngr_py.c", "jitter/bn.c"]),
    "Jitgcc": ("jitter/Jitgcc", ["jitter/Jitgcc.c", "jitter/bn.c"]),
    "JitCore_x86": ("jitter/arch/JitCore_x86", COMMON + ["jitter/arch/JitCore_x86.c"]),
    "JitCore_arm": ("jitter/arch/JitCore_arm", COMMON + ["jitter/arch/JitCore_arm.c"]),
    "JitCore_aarch64": ("jitter/arch/JitCore_aarch64", COMMON + ["jitter/arch/JitCore_aarch64.c"]),
    "JitCore_msp430": ("jitter/arch/JitCore_msp430", COMMON + ["jitter/arch/JitCore_msp430.c"]),
    "JitCore_mep": ("jitter/arch/JitCore_mep", ["jitter/JitCore.c", "jitter/vm_mngr.c", "jitter/vm_mngr_py.c",
                                                "jitter/bn.c", "jitter/arch/JitCore_mep.c"]),
    "JitCore_mips32": ("jitter/arch/JitCore_mips32", COMMON + ["jitter/arch/JitCore_mips32.c"]),
    "JitCore_ppc32": ("jitter/arch/JitCore_ppc32", COMMON + ["jitter/arch/JitCore_ppc32.c"]),
}
ALL = list(EXTENSIONS)

_active = {}


def source_hash(repo=REPO):
    h = hashlib.sha256()
    h.update(" ".join(CFLAGS).encode())
    h.update(sys.version.encode())
    for sub in ("jitter", "jitter/arch", "runtime"):
        d = os.path.join(repo, "miasm", sub)
        if not os.path.isdir(d):
            continue
        for name in sorted(os.listdir(d)):
            if name.endswith((".c", ".h")):
                h.update(name.encode())
                with open(os.path.join(d, name), "rb") as fd:
                    h.update(fd.read())
    return h.hexdigest()[:24]


def _compile(name, outdir, repo):
    rel, srcs = EXTENSIONS[name]
    out = os.path.join(outdir, os.path.basename(rel) + EXT)
    if os.path.exists(out):
        return out
    tmp = out + ".tmp%d" % os.getpid()
    cmd = ["gcc"] + CFLAGS + ["-I" + sysconfig.get_paths()["include"],
                              "-I" + os.path.join(repo, "miasm", "jitter")] + \
          [os.path.join(repo, "miasm", s) for s in srcs] + ["-o", tmp]
    p = subprocess.run(cmd, stdout=subprocess.PIPE, stderr=subprocess.STDOUT)
    if p.returncode != 0:
        raise RuntimeError("building %s failed:\n%s" % (name, p.stdout.decode(errors="replace")[-3000:]))
    os.replace(tmp, out)
    return out


def build(exts, repo=REPO):
    """Return {name: path of built extension} for the current sources (cached by source hash)."""
    key = source_hash(repo)
    outdir = os.path.join(CACHE, key)
    os.makedirs(outdir, exist_ok=True)
    with ThreadPoolExecutor(max_workers=min(8, len(exts) or 1)) as tp:
        paths = list(tp.map(lambda n: _compile(n, outdir, repo), exts))
    _prune_cache(keep=key)
    return dict(zip(exts, paths))


def _prune_cache(keep, max_entries=6):
    try:
        ents = [os.path.join(CACHE, d) for d in os.listdir(CACHE) if d != keep]
        ents.sort(key=os.path.getmtime)
        for d in ents[:-max_entries] if len(ents) > max_entries else []:
            shutil.rmtree(d, ignore_errors=True)
    except OSError:
        pass


def activate(exts=("VmMngr",), repo=REPO):
    """Build + install the shadow tree and make this process (and its children) import miasm from it.
    Must be called before `import miasm`. Idempotent."""
    if _active:
        return _active["shadow"]
    if "miasm" in sys.modules:
        raise RuntimeError("native.activate() must run before miasm is imported")
    exts = list(exts)
    if any(e.startswith("JitCore_") for e in exts):
        for need in ("VmMngr", "Jitgcc"):
            if need not in exts:
                exts.append(need)
    built = build(exts, repo)
    scratch = tempfile.mkdtemp(prefix="miasm_verif_")
    shadow = os.path.join(scratch, "tree")
    os.makedirs(shadow)
    subprocess.run(["rsync", "-a", "--exclude", "*.so", "--exclude", "__pycache__", "--exclude", "*.pyc",
                    os.path.join(repo, "miasm"), shadow + "/"], check=True)
    for name, path in built.items():
        rel, _ = EXTENSIONS[name]
        shutil.copy2(path, os.path.join(shadow, "miasm", rel + EXT))
    tmpdir = os.path.join(scratch, "tmp")
    os.makedirs(tmpdir)
    os.environ["TMPDIR"] = tmpdir
    tempfile.tempdir = tmpdir
    sys.path.insert(0, shadow)
    os.environ["PYTHONPATH"] = shadow + os.pathsep + os.environ.get("PYTHONPATH", "")
    _active.update(shadow=shadow, scratch=scratch, tmpdir=tmpdir, pid=os.getpid(), exts=exts)
    atexit.register(_cleanup)
    return shadow


def _cleanup():
    if _active and _active.get("pid") == os.getpid():
        shutil.rmtree(_active["scratch"], ignore_errors=True)


def tmpdir():
    return _active.get("tmpdir") or tempfile.gettempdir()


def include_dirs():
    """-I flags for C harnesses compiled by checks against the (shadow) tree's headers."""
    base = os.path.join(_active["shadow"], "miasm", "jitter") if _active else os.path.join(REPO, "miasm", "jitter")
    return ["-I" + base, "-I" + sysconfig.get_paths()["include"]]


if __name__ == "__main__":
    if "--prebuild" in sys.argv:
        paths = build(ALL)
        print("prebuilt %d extensions under %s" % (len(paths), os.path.dirname(list(paths.values())[0])))
