"""Generator of PE images through miasm's loader API, shared by C42 (round-trip) and C44 (loading).

A *spec* is a plain nested list of small integers (json friendly, index addressable):

    [wsize, hdr_menu, [[raw_i, virt_i], ...], imp_menu, exp_menu, rel_menu]

* wsize in (32, 64)
* hdr_menu indexes HDR_MENUS (header field edits, see below)
* 1..3 content sections; raw_i / virt_i index SIZES (raw size given to add_section through the data length,
  virtual size written to the section header field afterwards); contents are a position dependent non-zero
  pattern so that truncation, shifting and zero padding are all visible
* one extra two-page section "dirs" always closes the image and hosts the data directories, the import thunks
  and the relocation targets (so that every directory lives in file-backed bytes whatever the content sections are)
* imp_menu / exp_menu / rel_menu index IMPORT_MENUS / EXPORT_MENUS / RELOC_MENUS

build(spec) drives the real API (PE(), SHList.add_section, DirImport.add_dlldesc/set_rva,
DirExport.create/add_name/set_rva, DirReloc.add_reloc/set_rva, header attributes) and returns the PE object together
with an independent *model* of what was asked for (computed from the spec only, never read back from miasm).
"""
import itertools

SIZES = (0, 1, 0x1FF, 0x200, 0x201, 0x1000)
# RWX code (add_section default), RX code, R data, RW data
FLAGS = (0xE0000020, 0x60000020, 0x40000040, 0xC0000040)
MEM_WRITE = 0x80000000

# offsets inside the "dirs" section (2 pages of raw data)
DIRS_RAW = 0x2000
OFF_IMPORT = 0x000
OFF_EXPORT = 0x400
OFF_RELOC = 0x800
OFF_THUNK = 0xC00
# relocation targets: two in the first page (one of them straddling nothing, one last-but-one dword),
# two in the second page (page offset 0 and the last dword of the page)
REL_TARGETS_P1 = (0xE00, 0xFF8)
REL_TARGETS_P2 = (0x1000, 0x1FFC)

IMPORT_MENUS = (
    (),
    (("kernel32.dll", ("CreateFileA",)),),
    (("kernel32.dll", ("CreateFileA", "WriteFile")),),
    (("kernel32.dll", ("CreateFileA", 5)), ("USER32.dll", ("GetMenu", 7))),
)
# (dll name, [(export name, rva offset inside first section)...]) in *insertion* order (not sorted on purpose)
EXPORT_MENUS = (
    None,
    ("me.dll", (("foo", 0),)),
    ("me.dll", (("foo", 0), ("bar", 4), ("zed", 8))),
)
RELOC_MENUS = (
    (),
    REL_TARGETS_P1,
    REL_TARGETS_P1 + REL_TARGETS_P2,
)
# header menus: 0 defaults; 1 small file alignment + another image base; 2 cosmetic fields + e_lfanew moved;
# 3 "packed" layout: section alignment == file alignment == 0x200 and explicit, not page aligned, section RVAs
HDR_MENUS = (0, 1, 2, 3)
HDR_NAMES = ("default", "filealign200+base", "cosmetic+lfanew80", "packed-align200")


def pattern(i, n):
    """Non-zero, position dependent content of section i."""
    return bytes(1 + ((k * 7 + i * 31 + (k >> 8) * 3) % 255) for k in range(n))


def section_flags(i, ri, vi):
    return FLAGS[(i + ri + vi) % len(FLAGS)]


def image_base(wsize, hdr):
    if hdr == 1:
        return 0x10000000 if wsize == 32 else 0x140000000
    return 0x400000


def _roundup(x, a):
    return (x + a - 1) & ~(a - 1)


def build(spec):
    """Return (pe_object, model). Exceptions raised by the API propagate (the caller counts them as refusals)."""
    from miasm.loader.pe_init import PE
    wsize, hdr, sections, imp, exp, rel = spec
    pe = PE(wsize=wsize)
    base = image_base(wsize, hdr)
    hdr_expect = {}
    # ---- header edits that decide the layout come first
    if hdr == 1:
        pe.NThdr.filealignment = 0x200
        pe.NThdr.ImageBase = base
    elif hdr == 2:
        pe.Doshdr.lfanew = 0x80
    elif hdr == 3:
        pe.NThdr.filealignment = 0x200
        pe.NThdr.sectionalignment = 0x200
    s_align = 0x200 if hdr == 3 else 0x1000
    # ---- content sections
    secs = []
    model_secs = []
    next_addr = 0x1000
    for i, (ri, vi) in enumerate(sections):
        rsz, vsz = SIZES[ri], SIZES[vi]
        data = pattern(i, rsz)
        flags = section_flags(i, ri, vi)
        name = "s%d" % i
        if hdr == 3:
            s = pe.SHList.add_section(name=name, data=data, flags=flags, addr=next_addr)
            next_addr = _roundup(next_addr + max(vsz, rsz, 1), s_align)
        else:
            s = pe.SHList.add_section(name=name, data=data, flags=flags)
        secs.append(s)
        backed = min(rsz, vsz)
        model_secs.append({"name": name, "raw": rsz, "virt": vsz, "flags": flags,
                           "vdata": (data[:backed] + b"\x00" * (vsz - backed)),
                           "backed": backed})
    # ---- directory section
    dirs_data = bytearray(DIRS_RAW)
    targets = list(RELOC_MENUS[rel])
    words = {}
    for k, t in enumerate(REL_TARGETS_P1 + REL_TARGETS_P2):
        # one pointer-looking value, one small value that goes below zero with the negative delta, one value that
        # crosses 2^31 and one that crosses 2^32 with the positive delta (HIGHLOW arithmetic is modulo 2^32)
        val = ((base + 0x1000) & 0xFFFFFFFF, 0x00000800, 0x7FFFF000, 0xFFFFF800)[k]
        words[t] = val
        dirs_data[t:t + 4] = val.to_bytes(4, "little")
    if hdr == 3:
        sd = pe.SHList.add_section(name="dirs", data=bytes(dirs_data), addr=next_addr)
    else:
        sd = pe.SHList.add_section(name="dirs", data=bytes(dirs_data))
    # ---- virtual sizes are header fields edited once the layout is fixed
    for s, m in zip(secs, model_secs):
        s.size = m["virt"]
    # ---- imports
    model_imports = []
    if IMPORT_MENUS[imp]:
        new_dll = []
        first = True
        thunk = sd.addr + OFF_THUNK
        for dll, funcs in IMPORT_MENUS[imp]:
            new_dll.append(({"name": dll, "firstthunk": (sd.addr + OFF_THUNK) if first else None}, list(funcs)))
            model_imports.append({"dll": dll, "funcs": list(funcs), "firstthunk": thunk})
            thunk += (len(funcs) + 1) * (wsize // 8)
            first = False
        pe.DirImport.add_dlldesc(new_dll)
        pe.DirImport.set_rva(sd.addr + OFF_IMPORT)
    # ---- exports
    model_exports = None
    if EXPORT_MENUS[exp] is not None:
        dll, names = EXPORT_MENUS[exp]
        pe.DirExport.create(dll)
        model_exports = {"dll": dll, "base": 1, "funcs": []}
        for k, (n, off) in enumerate(names):
            rva = secs[0].addr + off
            pe.DirExport.add_name(n, rva=rva)
            model_exports["funcs"].append((n, rva, k))  # name, rva, ordinal index (insertion order)
        pe.DirExport.set_rva(sd.addr + OFF_EXPORT)
    # ---- relocations
    model_relocs = []
    if targets:
        if pe.DirReloc.reldesc is None:
            # a freshly created PE has neither a descriptor list nor a numeric directory size, and add_reloc
            # appends to the first and increments the second: give it the empty directory it expects
            pe.DirReloc.reldesc = []
            dirrel = pe.NThdr.optentries[5]
            if dirrel.size is None:
                dirrel.size = 0
        pe.DirReloc.add_reloc([sd.addr + t for t in targets])
        pe.DirReloc.set_rva(sd.addr + OFF_RELOC)
        model_relocs = [(sd.addr + t, words[t]) for t in targets]
    # ---- cosmetic header edits
    if hdr == 2:
        pe.Coffhdr.timedatestamp = 0x5F3759DF
        pe.Coffhdr.characteristics |= 0x2000
        pe.Opthdr.AddressOfEntryPoint = secs[0].addr + 1
        pe.Opthdr.SizeOfCode = 0x200
        pe.Opthdr.majorlinkerversion = 14
        pe.NThdr.subsystem = 2
        pe.NThdr.dllcharacteristics = 0x8140
        pe.NThdr.MajorImageVersion = 6
        pe.NThdr.sizeofstackreserve = 0x100000 if wsize == 32 else 0x100000000
        pe.NThdr.loaderflags = 1
        pe.Doshdr.cblp = 0x90
        pe.Doshdr.oemid = 0x1234
        hdr_expect = {
            ("Coffhdr", "timedatestamp"): 0x5F3759DF,
            ("Coffhdr", "characteristics"): (0x10f if wsize == 32 else 0x22) | 0x2000,
            ("Opthdr", "AddressOfEntryPoint"): secs[0].addr + 1,
            ("Opthdr", "SizeOfCode"): 0x200,
            ("Opthdr", "majorlinkerversion"): 14,
            ("NThdr", "subsystem"): 2,
            ("NThdr", "dllcharacteristics"): 0x8140,
            ("NThdr", "MajorImageVersion"): 6,
            ("NThdr", "sizeofstackreserve"): 0x100000 if wsize == 32 else 0x100000000,
            ("NThdr", "loaderflags"): 1,
            ("Doshdr", "cblp"): 0x90,
            ("Doshdr", "oemid"): 0x1234,
            ("Doshdr", "lfanew"): 0x80,
        }
    if hdr in (1, 3):
        hdr_expect[("NThdr", "filealignment")] = 0x200
    if hdr == 3:
        hdr_expect[("NThdr", "sectionalignment")] = 0x200
    hdr_expect[("NThdr", "ImageBase")] = base
    hdr_expect[("Coffhdr", "numberofsections")] = len(sections) + 1
    model = {
        "wsize": wsize, "base": base, "sections": model_secs, "dirs_index": len(sections),
        "imports": model_imports, "exports": model_exports, "relocs": model_relocs,
        "hdr_expect": hdr_expect, "dirs_addr": sd.addr,
        "filealign": 0x200 if hdr in (1, 3) else 0x1000, "sectionalign": s_align,
    }
    return pe, model


# ---------------------------------------------------------------------------------------------------------------
# lattices

def size_pairs(raws=range(len(SIZES)), virts=range(len(SIZES))):
    return [[r, v] for r in raws for v in virts]


def section_layouts(nmax, pairs_by_count):
    """All lists of 1..nmax [raw, virt] pairs; pairs_by_count[n] is the pair alphabet used for n-section images."""
    for n in range(1, nmax + 1):
        for t in itertools.product(pairs_by_count[n], repeat=n):
            yield [list(p) for p in t]


def lattice(wsizes, hdrs, layouts, imps, exps, rels):
    for ws in wsizes:
        for h in hdrs:
            for lay in layouts:
                for i in imps:
                    for e in exps:
                        for r in rels:
                            yield [ws, h, lay, i, e, r]


def spec_key(spec):
    return repr(spec)


def skeleton(spec):
    """Coarse class of a spec for signatures: never the raw numbers."""
    ws, h, lay, i, e, r = spec
    return "w%d/%s/%dsec/imp%d/exp%d/rel%d" % (ws, HDR_NAMES[h], len(lay), i, e, r)


# ---------------------------------------------------------------------------------------------------------------
# images with long import tables (C44: stub allocation across libraries and across images sharing one libimp)

# name -> [(dll, number of imported functions)] in import-descriptor order. 256 stubs fit the 0x1000 region a
# library gets from libimp, so 255/256/257 are the boundary sizes and 300/600 cross one/two regions.
IMPORT_SHAPES = {
    "small": [("a.dll", 2), ("b.dll", 2)],
    "small2": [("a.dll", 3), ("c.dll", 2)],
    "n255": [("n.dll", 255), ("b.dll", 2)],
    "n256": [("n.dll", 256), ("b.dll", 2)],
    "n257": [("n.dll", 257), ("b.dll", 2)],
    "big_last": [("a.dll", 2), ("big.dll", 300)],
    "big_first": [("big.dll", 300), ("b.dll", 2)],
    "big_middle": [("a.dll", 2), ("big.dll", 300), ("c.dll", 2)],
    "two_big": [("big1.dll", 300), ("big2.dll", 300), ("c.dll", 2)],
    "huge_first": [("huge.dll", 600), ("b.dll", 2)],
    # modules whose names agree up to the first dot (the stem canon_libname_libfunc keeps) importing the same
    # function names and ordinals; explicit function lists
    "stem_versioned": [("libfoo.1.dll", ["f", "g", 7]), ("libfoo.2.dll", ["f", 7, "h"])],
    "stem_ext": [("winspool.dll", ["OpenPrinterA", 3]), ("winspool.drv", ["OpenPrinterA", 3, "ClosePrinter"])],
    "stem_underscore": [("a.dll", ["b_c", "x"]), ("a_b.dll", ["c", "x"])],
    "stem_three": [("m.1.dll", ["f", 1]), ("m.2.dll", ["f", 1]), ("m.3.dll", ["f", 1])],
    # the same module under two spellings (one library for the loader): equal keys must give equal stubs
    "same_case": [("Kernel32.dll", ["f", 9]), ("KERNEL32.DLL", ["f", 9, "g"])],
    "same_noext": [("foo", ["f"]), ("foo.dll", ["f", "g"])],
}


def shape_funcs(n_or_list):
    return import_funcs(n_or_list) if isinstance(n_or_list, int) else list(n_or_list)


def norm_libname(dll):
    """The library name libimp files a module under."""
    dll = dll.lower().strip(" ")
    return dll if "." in dll else dll + ".dll"


def import_funcs(n):
    """n distinct imports: names, with an ordinal every 64th entry (also the 256th and 257th are of different kinds)."""
    return [(1000 + k) if k % 64 == 63 else "fn%03d" % k for k in range(n)]


def build_import_image(wsize, shape, base):
    """PE with the import table IMPORT_SHAPES[shape], built like example/loader/build_pe.py (thunks in the first
    section, import directory in a section of its own). Return (bytes, model) where model lists
    (dll, function, slot virtual address) computed from the shape alone."""
    from miasm.loader.pe_init import PE
    psz = wsize // 8
    libs = IMPORT_SHAPES[shape]
    nslots = sum(len(shape_funcs(n)) + 1 for _, n in libs)
    iat_off = 0x100
    pe = PE(wsize=wsize)
    pe.NThdr.ImageBase = base
    text = pe.SHList.add_section(name="text", data=b"\xc3", rawsize=_roundup(iat_off + nslots * psz, 0x1000))
    pe.Opthdr.AddressOfEntryPoint = text.addr
    new_dll, model = [], []
    slot = text.addr + iat_off
    for i, (dll, n) in enumerate(libs):
        funcs = shape_funcs(n)
        new_dll.append(({"name": dll, "firstthunk": slot if i == 0 else None}, list(funcs)))
        for f in funcs:
            model.append((dll, f, base + slot))
            slot += psz
        slot += psz
    pe.DirImport.add_dlldesc(new_dll)
    s_imp = pe.SHList.add_section(name="myimp", rawsize=len(pe.DirImport))
    pe.DirImport.set_rva(s_imp.addr)
    return bytes(pe), model
