"""Reference bit-vector semantics for miasm expressions (oracle of C01-C07, C09-C13, C36-C41).

Written from the *documented* meaning of each IR operator (property C03's text, doc/expression,
operator docstrings), on plain Python integers, independent of simplifications*.py, modint.py and
the translators.  An expression is compiled once to a Python closure

    fn = compile_expr(expr, ids)       # ids: ordered list of ExprId
    value = fn(vals, mem)              # vals: tuple of ints (one per id), mem(ptr_size, addr) -> byte

Division/modulo by zero is *undefined*: evaluation raises Undefined and callers skip (and count)
such valuations.  Operators without a reference meaning raise Unsupported at compile time.
"""


class Undefined(Exception):
    """The expression has no defined value under this valuation (division by zero)."""


class Unsupported(Exception):
    """Operator / node without a reference meaning."""


def mask(w):
    return (1 << w) - 1


def sx(x, w):
    """unsigned -> signed interpretation"""
    return x - (1 << w) if x >> (w - 1) & 1 else x


# ---------------------------------------------------------------- operator helpers

def h_shl(x, c, w):
    return (x << c) & mask(w) if c < w else 0


def h_shr(x, c, w):
    return x >> c if c < w else 0


def h_sar(x, c, w):
    s = sx(x, w)
    if c >= w:
        return mask(w) if s < 0 else 0
    return (s >> c) & mask(w)


def h_rol(x, c, w):
    c %= w
    return ((x << c) | (x >> (w - c))) & mask(w)


def h_ror(x, c, w):
    c %= w
    return ((x >> c) | (x << (w - c))) & mask(w)


def h_udiv(a, b, w):
    if b == 0:
        raise Undefined()
    return a // b


def h_umod(a, b, w):
    if b == 0:
        raise Undefined()
    return a % b


def h_sdiv(a, b, w):
    if b == 0:
        raise Undefined()
    sa, sb = sx(a, w), sx(b, w)
    q = abs(sa) // abs(sb)
    if (sa < 0) != (sb < 0):
        q = -q
    return q & mask(w)


def h_smod(a, b, w):
    if b == 0:
        raise Undefined()
    sa, sb = sx(a, w), sx(b, w)
    r = abs(sa) % abs(sb)
    if sa < 0:
        r = -r
    return r & mask(w)


def h_pow(a, b, w):
    return pow(a, b, 1 << w)


def h_clz(x, w):
    n = 0
    for i in range(w - 1, -1, -1):
        if x >> i & 1:
            break
        n += 1
    return n & mask(w)


def h_ctz(x, w):
    n = 0
    for i in range(w):
        if x >> i & 1:
            break
        n += 1
    return n & mask(w)


def h_parity(x):
    return 1 if bin(x & 0xFF).count("1") % 2 == 0 else 0


def h_sext(x, w, nw):
    return sx(x, w) & mask(nw)


def h_add_of(a, b, c, w):
    s = sx(a, w) + sx(b, w) + c
    return 0 if -(1 << (w - 1)) <= s < (1 << (w - 1)) else 1


def h_sub_of(a, b, c, w):
    s = sx(a, w) - sx(b, w) - c
    return 0 if -(1 << (w - 1)) <= s < (1 << (w - 1)) else 1


def h_bcdadd(a, b, want_carry):
    carry = 0
    res = 0
    for i in range(0, 16, 4):
        j = carry + ((a >> i) & 0xF) + ((b >> i) & 0xF)
        if j >= 10:
            carry = 1
            j = (j - 10) & 0xF
        else:
            carry = 0
        res |= j << i
    return carry if want_carry else res


def h_mem(mem, ptr_size, addr, nbytes, big_endian=False):
    v = 0
    m = mask(ptr_size)
    for i in range(nbytes):
        b = mem(ptr_size, (addr + i) & m)
        if big_endian:
            v = (v << 8) | b
        else:
            v |= b << (8 * i)
    return v


HELPERS = {
    "h_shl": h_shl, "h_shr": h_shr, "h_sar": h_sar, "h_rol": h_rol, "h_ror": h_ror,
    "h_udiv": h_udiv, "h_umod": h_umod, "h_sdiv": h_sdiv, "h_smod": h_smod, "h_pow": h_pow,
    "h_clz": h_clz, "h_ctz": h_ctz, "h_parity": h_parity, "h_sext": h_sext, "sx": sx,
    "h_add_of": h_add_of, "h_sub_of": h_sub_of, "h_bcdadd": h_bcdadd, "h_mem": h_mem,
}

NARY = {"+": "+", "*": "*", "^": "^", "&": "&", "|": "|"}
BIN_HELPER = {"<<": "h_shl", ">>": "h_shr", "a>>": "h_sar", "<<<": "h_rol", ">>>": "h_ror",
              "/": "h_udiv", "%": "h_umod", "udiv": "h_udiv", "umod": "h_umod",
              "sdiv": "h_sdiv", "smod": "h_smod", "**": "h_pow"}

SUPPORTED_OPS = set(NARY) | set(BIN_HELPER) | {
    "-", "cntleadzeros", "cnttrailzeros", "parity", "==", "<u", "<s", "<=u", "<=s",
    "FLAG_EQ", "FLAG_EQ_AND", "FLAG_SIGN_SUB", "FLAG_EQ_CMP", "FLAG_ADD_CF", "FLAG_SUB_CF",
    "FLAG_ADD_OF", "FLAG_SUB_OF", "FLAG_EQ_ADDWC", "FLAG_ADDWC_OF", "FLAG_SUBWC_OF",
    "FLAG_ADDWC_CF", "FLAG_SUBWC_CF", "FLAG_SIGN_ADDWC", "FLAG_SIGN_SUBWC", "FLAG_EQ_SUBWC",
    "CC_U<=", "CC_U>=", "CC_S<", "CC_S>", "CC_S<=", "CC_S>=", "CC_U>", "CC_U<", "CC_NEG",
    "CC_EQ", "CC_NE", "CC_POS", "bcdadd", "bcdadd_cf"}


def op_supported(op):
    return op in SUPPORTED_OPS or op.startswith("zeroExt_") or op.startswith("signExt_")


_HOOKS = {"loc": None, "call": False}


def to_src(e, idx, big_endian=False):
    """Return python source computing e; identifiers are v[i], memory is mem(ptr_size, addr).
    _HOOKS["loc"]: optional callable ExprLoc -> int; _HOOKS["call"]: when true, `call_*` operators are
    emitted as xcall(name, args, width) (uninterpreted events supplied by the caller's namespace)."""
    if e.is_int():
        return "%d" % int(e)
    if e.is_id():
        if e not in idx:
            raise Unsupported("free identifier %r not in valuation" % e)
        return "v[%d]" % idx[e]
    if e.is_loc():
        if _HOOKS["loc"] is None:
            raise Unsupported("ExprLoc")
        return "%d" % _HOOKS["loc"](e)
    if e.is_mem():
        if e.size % 8:
            raise Unsupported("memory access of %d bits" % e.size)
        return "h_mem(mem,%d,%s,%d,%s)" % (e.ptr.size, to_src(e.ptr, idx, big_endian), e.size // 8, big_endian)
    if e.is_slice():
        return "((%s>>%d)&%d)" % (to_src(e.arg, idx, big_endian), e.start, mask(e.stop - e.start))
    if e.is_compose():
        parts = []
        off = 0
        for a in e.args:
            parts.append("(%s<<%d)" % (to_src(a, idx, big_endian), off))
            off += a.size
        return "(" + "|".join(parts) + ")"
    if e.is_cond():
        return "(%s if %s else %s)" % (to_src(e.src1, idx, big_endian), to_src(e.cond, idx, big_endian),
                                       to_src(e.src2, idx, big_endian))
    if not e.is_op():
        raise Unsupported(type(e).__name__)
    op = e.op
    args = e.args
    w = e.size
    a = [to_src(x, idx, big_endian) for x in args]
    if _HOOKS["call"] and op.startswith("call_"):
        return "xcall(%r,(%s,),%d)" % (op, ",".join(a), w)
    aw = args[0].size
    m = mask(w)
    if op in NARY:
        return "((%s)&%d)" % (NARY[op].join(a), m)
    if op == "-":
        if len(a) == 1:
            return "((-%s)&%d)" % (a[0], m)
        if len(a) == 2:
            return "((%s-%s)&%d)" % (a[0], a[1], m)
        raise Unsupported("'-' with %d args" % len(a))
    if op in BIN_HELPER:
        if len(a) != 2:
            raise Unsupported("%s with %d args" % (op, len(a)))
        return "%s(%s,%s,%d)" % (BIN_HELPER[op], a[0], a[1], aw)
    if op == "cntleadzeros":
        return "h_clz(%s,%d)" % (a[0], aw)
    if op == "cnttrailzeros":
        return "h_ctz(%s,%d)" % (a[0], aw)
    if op == "parity":
        return "h_parity(%s)" % a[0]
    if op.startswith("zeroExt_"):
        return a[0]
    if op.startswith("signExt_"):
        return "h_sext(%s,%d,%d)" % (a[0], aw, w)
    if op == "==":
        return "(1 if %s==%s else 0)" % (a[0], a[1])
    if op == "<u":
        return "(1 if %s<%s else 0)" % (a[0], a[1])
    if op == "<=u":
        return "(1 if %s<=%s else 0)" % (a[0], a[1])
    if op == "<s":
        return "(1 if sx(%s,%d)<sx(%s,%d) else 0)" % (a[0], aw, a[1], aw)
    if op == "<=s":
        return "(1 if sx(%s,%d)<=sx(%s,%d) else 0)" % (a[0], aw, a[1], aw)
    # flags: arithmetic definitions (carry / borrow out of unbounded integers, signed range test)
    am = mask(aw)
    if op == "FLAG_EQ":
        return "(1 if %s==0 else 0)" % a[0]
    if op == "FLAG_EQ_AND":
        return "(1 if (%s&%s)==0 else 0)" % (a[0], a[1])
    if op == "FLAG_EQ_CMP":
        return "(1 if %s==%s else 0)" % (a[0], a[1])
    if op == "FLAG_SIGN_SUB":
        return "(((%s-%s)>>%d)&1)" % (a[0], a[1], aw - 1)
    if op == "FLAG_ADD_CF":
        return "(1 if %s+%s>%d else 0)" % (a[0], a[1], am)
    if op == "FLAG_SUB_CF":
        return "(1 if %s<%s else 0)" % (a[0], a[1])
    if op == "FLAG_ADD_OF":
        return "h_add_of(%s,%s,0,%d)" % (a[0], a[1], aw)
    if op == "FLAG_SUB_OF":
        return "h_sub_of(%s,%s,0,%d)" % (a[0], a[1], aw)
    if op in ("FLAG_EQ_ADDWC", "FLAG_ADDWC_OF", "FLAG_SUBWC_OF", "FLAG_ADDWC_CF", "FLAG_SUBWC_CF",
              "FLAG_SIGN_ADDWC", "FLAG_SIGN_SUBWC", "FLAG_EQ_SUBWC"):
        if len(a) != 3 or args[2].size != 1 or args[1].size != aw:
            raise Unsupported("%s with unusual argument shape" % op)
        if op == "FLAG_EQ_ADDWC":
            return "(1 if ((%s+%s+%s)&%d)==0 else 0)" % (a[0], a[1], a[2], am)
        if op == "FLAG_EQ_SUBWC":
            return "(1 if ((%s-%s-%s)&%d)==0 else 0)" % (a[0], a[1], a[2], am)
        if op == "FLAG_ADDWC_OF":
            return "h_add_of(%s,%s,%s,%d)" % (a[0], a[1], a[2], aw)
        if op == "FLAG_SUBWC_OF":
            return "h_sub_of(%s,%s,%s,%d)" % (a[0], a[1], a[2], aw)
        if op == "FLAG_ADDWC_CF":
            return "(1 if %s+%s+%s>%d else 0)" % (a[0], a[1], a[2], am)
        if op == "FLAG_SUBWC_CF":
            return "(1 if %s<%s+%s else 0)" % (a[0], a[1], a[2])
        if op == "FLAG_SIGN_ADDWC":
            return "(((%s+%s+%s)>>%d)&1)" % (a[0], a[1], a[2], aw - 1)
        if op == "FLAG_SIGN_SUBWC":
            return "(((%s-%s-%s)>>%d)&1)" % (a[0], a[1], a[2], aw - 1)
    if op.startswith("CC_"):
        if any(x.size != 1 for x in args):
            raise Unsupported("%s on non-1-bit arguments" % op)
        table = {
            "CC_U<=": (2, "({0}|{1})"), "CC_U>=": (1, "({0}^1)"), "CC_S<": (2, "({0}^{1})"),
            "CC_S>": (3, "(({2}|({0}^{1}))^1)"), "CC_S<=": (3, "({2}|({0}^{1}))"),
            "CC_S>=": (2, "(({0}^{1})^1)"), "CC_U>": (2, "(({0}|{1})^1)"), "CC_U<": (1, "{0}"),
            "CC_NEG": (1, "{0}"), "CC_EQ": (1, "{0}"), "CC_NE": (1, "({0}^1)"), "CC_POS": (1, "({0}^1)"),
        }
        if op in table and table[op][0] == len(a):
            return table[op][1].format(*a)
        raise Unsupported(op)
    if op in ("bcdadd", "bcdadd_cf"):
        if aw != 16:
            raise Unsupported("bcdadd on %d bits" % aw)
        return "h_bcdadd(%s,%s,%s)" % (a[0], a[1], op == "bcdadd_cf")
    raise Unsupported("operator %r" % op)


def free_ids(e):
    """Ordered list of ExprId occurring in e (deterministic: first occurrence, depth-first)."""
    out = []
    seen = set()

    def walk(x):
        if x.is_id():
            if x not in seen:
                seen.add(x)
                out.append(x)
        elif x.is_mem():
            walk(x.ptr)
        elif x.is_slice():
            walk(x.arg)
        elif x.is_cond():
            walk(x.cond); walk(x.src1); walk(x.src2)
        elif x.is_op() or x.is_compose():
            for a in x.args:
                walk(a)
    walk(e)
    return out


def has_mem(e):
    found = []

    def walk(x):
        if x.is_mem():
            found.append(x)
            walk(x.ptr)
        elif x.is_slice():
            walk(x.arg)
        elif x.is_cond():
            walk(x.cond); walk(x.src1); walk(x.src2)
        elif x.is_op() or x.is_compose():
            for a in x.args:
                walk(a)
    walk(e)
    return bool(found)


def compile_expr(e, ids, big_endian=False, loc=None, xcall=None):
    idx = {x: i for i, x in enumerate(ids)}
    old = dict(_HOOKS)
    _HOOKS["loc"], _HOOKS["call"] = loc, xcall is not None
    try:
        src = to_src(e, idx, big_endian)
    finally:
        _HOOKS.update(old)
    ns = dict(HELPERS)
    if xcall is not None:
        ns["xcall"] = xcall
    return eval("lambda v, mem: " + src, ns)


def ev(e, env=None, mem=None, big_endian=False):
    """One-shot evaluation. env: dict ExprId -> int; mem: callable(ptr_size, addr) -> byte."""
    env = env or {}
    ids = list(env)
    fn = compile_expr(e, ids, big_endian)
    return fn(tuple(env[i] for i in ids), mem or (lambda ps, a: 0))


def no_mem(ps, a):
    raise Unsupported("memory read without a memory")


def pattern_mem(ps, a):
    """Deterministic non-trivial memory: byte depends on address (and pointer width)."""
    return ((a * 0x9D) ^ (a >> 3) ^ (ps * 0x35) ^ 0x5A) & 0xFF


def boundary(w):
    """Boundary value set B(w) (all values for w <= 3)."""
    if w <= 3:
        return list(range(1 << w))
    m = mask(w)
    s = {0, 1, 2, 3, w - 1, w, w + 1, (1 << (w - 1)) - 1, 1 << (w - 1), (1 << (w - 1)) + 1, m - 1, m,
         int("55" * ((w + 7) // 8), 16) & m, int("AA" * ((w + 7) // 8), 16) & m}
    k = 1
    while k < w:
        s.add(1 << k)
        s.add((1 << k) - 1)
        k *= 2
    h = w // 2
    if h:
        s.add(1 << h); s.add((1 << h) - 1); s.add(m ^ ((1 << h) - 1))
    return sorted(x & m for x in s)
