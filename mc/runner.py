"""Runner for the bounded-exhaustive checks of /verif.

    ./check <ID> --tier quick|thorough
    ./check <ID> --replay <file>

A check module (checks/cNN_*.py) defines

    PROP   = "C26"
    LEVEL  = "exploration" | "model_checking"
    RULE   = "how cases are enumerated / what makes one non-trivial"
    ASSUMPTIONS = [...]
    def run(ctx) -> dict          # coverage keys (see Result below)
    def replay(case) -> list      # re-run one recorded case, return violations (dicts)

`ctx` gives the tier, the seed, a process pool (`ctx.pmap`) and `ctx.violation(...)`.
The runner owns everything the interface prescribes: evidence file, known-findings
matching, replay artefacts, the VIOLATION / KNOWN-FINDING lines and the exit code.

Exit codes: 0 property held on everything explored (known findings printed),
            1 at least one violation not listed in known_findings.json,
            2 harness error (never a verdict).
"""
from __future__ import annotations

import argparse
import glob
import hashlib
import importlib
import json
import multiprocessing as mp
import os
import random
import subprocess
import sys
import tempfile
import time
import traceback

ROOT = os.path.dirname(os.path.dirname(os.path.abspath(__file__)))
REPO = os.environ.get("VERIF_REPO", "/repo")
# VERIF_REPO=<dir> points the checks at another checkout (a scratch worktree with a seeded change);
# evidence/replays then go to VERIF_OUT (default: a directory next to that checkout) so that the
# committed evidence of /verif is only ever written by runs against /repo itself.
if os.path.realpath(REPO) != "/repo":
    _OUT = os.environ.get("VERIF_OUT", os.path.realpath(REPO).rstrip("/") + ".verif_out")
else:
    _OUT = ROOT
EVIDENCE_DIR = os.path.join(_OUT, "evidence")
REPLAY_DIR = os.path.join(_OUT, "replays")
if os.path.realpath(REPO) != "/repo":
    sys.path.insert(0, os.path.realpath(REPO))
    os.environ["PYTHONPATH"] = os.path.realpath(REPO) + os.pathsep + os.environ.get("PYTHONPATH", "")
FINDINGS = os.path.join(ROOT, "known_findings.json")


def jsonable(x):
    """Best-effort conversion of a case to something json can store."""
    if isinstance(x, (str, int, float, bool)) or x is None:
        return x
    if isinstance(x, bytes):
        return {"__bytes__": x.hex()}
    if isinstance(x, (list, tuple)):
        return [jsonable(i) for i in x]
    if isinstance(x, (set, frozenset)):
        return sorted((jsonable(i) for i in x), key=repr)
    if isinstance(x, dict):
        return {str(k): jsonable(v) for k, v in x.items()}
    return repr(x)


def unjson(x):
    if isinstance(x, dict):
        if set(x) == {"__bytes__"}:
            return bytes.fromhex(x["__bytes__"])
        return {k: unjson(v) for k, v in x.items()}
    if isinstance(x, list):
        return [unjson(i) for i in x]
    return x


def violation(sig, what, case):
    """Build a violation record.

    sig  : narrow signature = call site + input skeleton (used for known-finding matching)
    what : human description including the concrete witness
    case : json-able replay handle accepted by the module's replay()
    """
    return {"sig": str(sig), "what": str(what), "case": jsonable(case)}


class Ctx(object):
    def __init__(self, prop, tier, seed, nproc):
        self.prop = prop
        self.tier = tier
        self.seed = seed
        self.nproc = nproc
        self.violations = []
        self._pool = None
        self.t0 = time.time()

    @property
    def quick(self):
        return self.tier == "quick"

    def pool(self):
        if self._pool is None:
            self._pool = mp.get_context("fork").Pool(self.nproc)
        return self._pool

    def pmap(self, fn, shards, chunksize=1):
        """Run fn over every shard on the pool. VERIF_SEED only permutes the order in which
        shards are handed out; results are returned in shard order, the set never changes."""
        shards = list(shards)
        order = list(range(len(shards)))
        random.Random(self.seed).shuffle(order)
        if self.nproc <= 1 or len(shards) <= 1:
            res = [fn(shards[i]) for i in order]
        else:
            res = self.pool().map(fn, [shards[i] for i in order], chunksize)
        out = [None] * len(shards)
        for i, r in zip(order, res):
            out[i] = r
        return out

    def violation(self, sig, what, case):
        self.violations.append(violation(sig, what, case))

    def add_violations(self, vs):
        self.violations.extend(vs)

    def close(self):
        if self._pool is not None:
            self._pool.close()
            self._pool.join()
            self._pool = None


def find_module(prop):
    pat = os.path.join(ROOT, "checks", prop.lower() + "_*.py")
    hits = sorted(glob.glob(pat))
    if not hits:
        hits = sorted(glob.glob(os.path.join(ROOT, "checks", prop.lower() + ".py")))
    if not hits:
        raise SystemExit("no check module for %s" % prop)
    name = os.path.splitext(os.path.basename(hits[0]))[0]
    return importlib.import_module("checks." + name)


def load_findings(prop):
    if not os.path.exists(FINDINGS):
        return {}
    with open(FINDINGS) as fd:
        data = json.load(fd)
    out = {}
    for ent in data.get("findings", []):
        if ent.get("property") == prop:
            out[ent["signature"]] = ent
    return out


def atomic_write(path, text):
    os.makedirs(os.path.dirname(path), exist_ok=True)
    fd, tmp = tempfile.mkstemp(dir=os.path.dirname(path), prefix=".tmp")
    with os.fdopen(fd, "w") as f:
        f.write(text)
    os.replace(tmp, path)


def write_replay(prop, v):
    fp = hashlib.sha256((v["sig"] + json.dumps(v["case"], sort_keys=True)).encode()).hexdigest()[:16]
    path = os.path.join(REPLAY_DIR, prop, fp + ".json")
    atomic_write(path, json.dumps({"property": prop, "sig": v["sig"], "what": v["what"],
                                   "case": v["case"],
                                   "replay_cmd": "./check %s --replay %s" % (prop, path)},
                                  indent=1, sort_keys=True))
    return path


def confirm(prop, path):
    """Replay rule: a violating case must reproduce in a fresh process, otherwise the harness
    (not the repository) is at fault."""
    env = dict(os.environ)
    env["VERIF_NO_CONFIRM"] = "1"
    p = subprocess.run([os.path.join(ROOT, "check"), prop, "--replay", path],
                       stdout=subprocess.PIPE, stderr=subprocess.STDOUT, env=env, cwd=ROOT)
    return p.returncode == 1, p.stdout.decode(errors="replace")


def report(prop, violations, do_confirm=True, max_new=20):
    """Print KNOWN-FINDING / VIOLATION lines. Return (n_new, n_known, nondeterministic)."""
    known = load_findings(prop)
    by_sig = {}
    for v in violations:
        by_sig.setdefault(v["sig"], []).append(v)
    n_new = n_known = 0
    nondet = False
    for sig in sorted(by_sig):
        vs = by_sig[sig]
        if sig in known:
            n_known += 1
            print("KNOWN-FINDING: property=%s %s [%d case(s), signature %s]" % (
                prop, known[sig].get("what", vs[0]["what"]), len(vs), sig))
            continue
        n_new += 1
        if n_new > max_new:
            continue
        path = write_replay(prop, vs[0])
        if do_confirm and not os.environ.get("VERIF_NO_CONFIRM"):
            ok, out = confirm(prop, path)
            if not ok:
                nondet = True
                print("HARNESS-NONDETERMINISM property=%s signature=%s case did not reproduce in a "
                      "fresh process (%s)" % (prop, sig, path))
                print(out[-2000:])
                continue
        print("  signature: %s\n  what: %s\n  cases with this signature: %d" % (sig, vs[0]["what"], len(vs)))
        print("VIOLATION property=%s replay=%s" % (prop, path))
    if n_new > max_new:
        print("(%d further distinct violation signatures not printed)" % (n_new - max_new))
    return n_new, n_known, nondet


def main(argv=None):
    ap = argparse.ArgumentParser()
    ap.add_argument("prop")
    ap.add_argument("--tier", default=os.environ.get("VERIF_TIER", "quick"), choices=["quick", "thorough"])
    ap.add_argument("--replay")
    ap.add_argument("--nproc", type=int, default=int(os.environ.get("VERIF_NPROC", "0")) or (os.cpu_count() or 4))
    args = ap.parse_args(argv)
    prop = args.prop.upper()
    try:
        seed = int(os.environ.get("VERIF_SEED", "0"))
    except ValueError:
        seed = 0
    sys.path.insert(0, ROOT)
    sys.setrecursionlimit(10000)

    try:
        mod = find_module(prop)
    except SystemExit:
        raise
    except Exception:
        traceback.print_exc()
        return 2

    if args.replay:
        with open(args.replay) as fd:
            rec = json.load(fd)
        try:
            vs = mod.replay(unjson(rec["case"]))
        except Exception:
            traceback.print_exc()
            return 2
        n_new, n_known, nondet = report(prop, vs, do_confirm=False)
        if not vs:
            print("replay: case does not violate %s on this tree" % prop)
        return 1 if n_new else 0

    ctx = Ctx(prop, args.tier, seed, args.nproc)
    t0 = time.time()
    try:
        cov = mod.run(ctx) or {}
    except Exception:
        traceback.print_exc()
        ctx.close()
        print("HARNESS-ERROR property=%s" % prop)
        return 2
    finally:
        ctx.close()
    wall = time.time() - t0
    n_new, n_known, nondet = report(prop, ctx.violations)

    level = getattr(mod, "LEVEL", "exploration")
    cov = dict(cov)
    cov.setdefault("rule", getattr(mod, "RULE", ""))
    cov.setdefault("exhaustive", True)
    cov["violation_signatures_new"] = n_new
    cov["violation_signatures_known"] = n_known
    ev = {
        "property_id": prop,
        "tier": args.tier,
        "seed": seed,
        "level": level,
        "coverage": jsonable(cov),
        "assumptions": list(getattr(mod, "ASSUMPTIONS", [])),
        "wall_s": round(wall, 2),
        "violations": len(ctx.violations),
        "repo_head": _repo_head(),
    }
    atomic_write(os.path.join(EVIDENCE_DIR, prop + ".json"), json.dumps(ev, indent=1, sort_keys=True) + "\n")
    brief = {k: v for k, v in cov.items() if isinstance(v, (int, float, bool))}
    print("%s tier=%s seed=%d wall=%.1fs %s" % (prop, args.tier, seed, wall, json.dumps(brief, sort_keys=True)))
    if nondet:
        return 2
    return 1 if n_new else 0


def _repo_head():
    try:
        h = subprocess.run(["git", "-C", REPO, "rev-parse", "--short", "HEAD"], stdout=subprocess.PIPE,
                           stderr=subprocess.DEVNULL).stdout.decode().strip()
        d = subprocess.run(["git", "-C", REPO, "status", "--porcelain", "--untracked-files=no"],
                           stdout=subprocess.PIPE, stderr=subprocess.DEVNULL).stdout.decode().strip()
        return h + ("+dirty" if d else "")
    except Exception:
        return "unknown"


if __name__ == "__main__":
    sys.exit(main())
