"""Shared machinery of C01 (meaning preserved, never crashes) and C02 (stable fixed point).

The lattice (mc.exprgen) is enumerated completely, sharded over the pool. For each expression and each
shipped simplifier configuration the real simplifier objects are run; mc.refsem is the oracle.

Rule-level observation is done from outside: inside each worker the entries of `expr_simp_cb` of the
shipped simplifier objects are replaced by recording wrappers (name, before, after). This gives
  * attribution (the first non-equivalent rewrite names the call site of the signature),
  * extra end-to-end inputs: every `before` of a non-equivalent rewrite is itself simplified and judged,
  * the per-rule firing counts in the evidence (a rule that never fired is listed by name),
  * the step counter used as termination budget in C02.
"""
import itertools
import sys

from mc import exprgen, refsem
from mc.runner import violation

CONFIGS = ["expr_simp", "expr_simp_high_to_explicit", "expr_simp_explicit"]
STEP_BUDGET = 20000
NONTERM_CAP = 3

_state = {}


class Budget(Exception):
    pass


def _setup():
    """Wrap the rule tables of the shipped simplifiers (once per process)."""
    if _state:
        return _state
    from miasm.expression import simplifications as S
    simps = {name: getattr(S, name) for name in CONFIGS}
    trace = []
    counter = [0]
    fired = {}
    all_rules = set()

    def wrap(f):
        name = f.__name__
        all_rules.add(name)

        def w(e_s, expr):
            counter[0] += 1
            if counter[0] > STEP_BUDGET:
                raise Budget()
            r = f(e_s, expr)
            if r is not expr:
                fired[name] = fired.get(name, 0) + 1
                if _state["tracing"]:
                    trace.append((name, expr, r))
            return r
        w.__name__ = name
        w._orig = f
        return w

    wrapped = {}
    for name, s in simps.items():
        for cls, lst in list(s.expr_simp_cb.items()):
            new = []
            for f in lst:
                if hasattr(f, "_orig"):
                    new.append(f)
                    continue
                if f not in wrapped:
                    wrapped[f] = wrap(f)
                new.append(wrapped[f])
            s.expr_simp_cb[cls] = new
        s.cache.clear()
    def wrapped_table(name):
        """A class-level pass table with every rule wrapped (step budget, firing counts)."""
        out = {}
        for cls, lst in getattr(S.ExpressionSimplifier, name).items():
            new = []
            for f in lst:
                if f not in wrapped:
                    wrapped[f] = wrap(f)
                new.append(wrapped[f])
            out[cls] = new
        return out

    _state.update(simps=simps, trace=trace, counter=counter, fired=fired, tracing=False, all_rules=all_rules,
                  S=S, vcache={}, judged=set(), wrapped_table=wrapped_table, tables={})
    return _state


def run_simp(cfg, e, tracing=False):
    st = _setup()
    st["counter"][0] = 0
    st["tracing"] = tracing
    del st["trace"][:]
    try:
        return st["simps"][cfg](e)
    finally:
        st["tracing"] = False


# ---------------------------------------------------------------- valuations

MEMS = [refsem.pattern_mem, lambda ps, a: 0xFF if a & 1 else 0x80, lambda ps, a: 0]


def valuations(widths):
    st = _setup()
    key = tuple(widths)
    if key in st["vcache"]:
        return st["vcache"][key]
    total = sum(widths)
    if total <= 10:
        lists = [range(1 << w) for w in widths]
        exhaustive = True
    else:
        lists = []
        for w in widths:
            b = refsem.boundary(w)
            if len(widths) >= 3 and len(b) > 8:
                m = (1 << w) - 1
                b = sorted(set([0, 1, 2, w, m, m - 1, 1 << (w - 1), (1 << (w - 1)) - 1]))
            lists.append(b)
        exhaustive = all(w <= 3 for w in widths)
    vals = list(itertools.product(*lists))
    st["vcache"][key] = (vals, exhaustive)
    return vals, exhaustive


def differ(e, r):
    """Return None if e and r agree on every valuation explored, else a witness dict.
    Raises refsem.Unsupported if either side has no reference meaning."""
    ids = refsem.free_ids(e)
    rids = refsem.free_ids(r)
    extra = [i for i in rids if i not in ids]
    if extra:
        return {"why": "result mentions identifiers absent from the input: %s" % extra}
    fe = refsem.compile_expr(e, ids)
    fr = refsem.compile_expr(r, ids)
    vals, _ = valuations([i.size for i in ids])
    mems = MEMS if (refsem.has_mem(e) or refsem.has_mem(r)) else MEMS[:1]
    for mem in mems:
        for v in vals:
            try:
                a = fe(v, mem)
            except refsem.Undefined:
                continue
            try:
                b = fr(v, mem)
            except refsem.Undefined:
                return {"why": "result is undefined (division by zero) where the input is defined",
                        "valuation": {str(i): x for i, x in zip(ids, v)}}
            if a != b:
                return {"why": "values differ", "valuation": {str(i): x for i, x in zip(ids, v)},
                        "input_value": a, "result_value": b, "memory": MEMS.index(mem)}
    return None


# ---------------------------------------------------------------- skeletons (signatures)

def cst_class(v, w):
    m = (1 << w) - 1
    if v == 0:
        return "0"
    if v == 1:
        return "1"
    if v == m:
        return "ones"
    if v == 1 << (w - 1):
        return "msb"
    if v & (v - 1) == 0:
        return "pow2"
    if v & (v + 1) == 0:
        return "pow2m1"
    if v >> (w - 1):
        return "neg"
    return "pos"


def skeleton(e, depth=3):
    if e.is_int():
        return cst_class(int(e), e.size)
    if e.is_id():
        return "id"
    if depth == 0:
        return "_"
    if e.is_mem():
        return "@%d[%s]" % (e.size, skeleton(e.ptr, depth - 1))
    if e.is_slice():
        pos = "lo" if e.start == 0 else ("hi" if e.stop == e.arg.size else "mid")
        return "%s[%s]" % (skeleton(e.arg, depth - 1), pos)
    if e.is_compose():
        return "{%s}" % ",".join(skeleton(a, depth - 1) for a in e.args)
    if e.is_cond():
        return "(%s?%s:%s)" % tuple(skeleton(a, depth - 1) for a in (e.cond, e.src1, e.src2))
    if e.is_op():
        op = e.op
        if op.startswith("zeroExt_"):
            op = "zeroExt"
        elif op.startswith("signExt_"):
            op = "signExt"
        return "%s(%s)" % (op, ",".join(skeleton(a, depth - 1) for a in e.args))
    return type(e).__name__


# ---------------------------------------------------------------- C01 per-expression

def judge_meaning(e, cfg, case, depth=0, deep=False):
    """Return (status, violations). status: ok / unsupported / crash / mismatch
    deep: also judge every rewrite (rule, before, after) seen while simplifying e; the `before` of a
    non-equivalent rewrite is fed back as an additional end-to-end input (thorough tier)."""
    try:
        r = run_simp(cfg, e, tracing=deep)
        pairs = list(_setup()["trace"]) if deep else []
    except Budget:
        return "budget", []      # termination is the business of C02
    except RecursionError:
        return "budget", []
    except Exception as ex:
        tb = sys.exc_info()[2]
        while tb.tb_next:
            tb = tb.tb_next
        site = tb.tb_frame.f_code.co_name
        return "crash", [violation("%s|crash:%s@%s|%s" % (cfg, type(ex).__name__, site, skeleton(e)),
                                   "%s(%s) raised %r in %s" % (cfg, e, ex, site), case)]
    if r.size != e.size:
        return "mismatch", [violation("%s|width|%s" % (cfg, skeleton(e)),
                                      "%s(%s) = %s has width %s, expected %s" % (cfg, e, r, r.size, e.size), case)]
    try:
        w = differ(e, r)
    except refsem.Unsupported:
        return "unsupported", []
    if w is None:
        extra = []
        if deep and depth == 0:
            st = _setup()
            for name, b, a in pairs:
                key = (b, a)
                if key in st["judged"]:
                    continue
                st["judged"].add(key)
                try:
                    bad = b.size != a.size or differ(b, a) is not None
                except refsem.Unsupported:
                    continue
                if bad:
                    st["rule_level_inconsistencies"] = st.get("rule_level_inconsistencies", 0) + 1
                    sub = dict(case)
                    sub["expr"] = repr(b)
                    sub["index"] = -1
                    extra += judge_meaning(b, cfg, sub, depth=1)[1]
        return "ok", extra
    # attribute: re-run with tracing, find the first rewrite that is not an equivalence
    rule, before, after = "unattributed", e, r
    try:
        for smp in _setup()["simps"].values():
            smp.cache.clear()
        run_simp(cfg, e, tracing=True)
        for name, b, a in list(_setup()["trace"]):
            try:
                if b.size != a.size or differ(b, a) is not None:
                    rule, before, after = name, b, a
                    break
            except refsem.Unsupported:
                continue
    except Exception:
        pass
    what = ("%s(%s) = %s : %s %s; first non-equivalent rewrite: %s: %s => %s" %
            (cfg, e, r, w["why"], {k: v for k, v in w.items() if k != "why"}, rule, before, after))
    return "mismatch", [violation("%s|%s|%s" % (cfg, rule, skeleton(before, 2)), what, case)]


def judge_fixpoint(e, cfg, case):
    """C02: termination within the step budget, idempotence, cache transparency."""
    st = _setup()
    S = st["S"]
    try:
        r = run_simp(cfg, e)
    except Budget:
        return "nonterm", [violation("%s|step-budget|%s" % (cfg, skeleton(e)),
                                     "%s(%s) exceeded %d rule applications (no fixed point reached)" % (cfg, e, STEP_BUDGET), case)]
    except RecursionError:
        return "nonterm", [violation("%s|recursion|%s" % (cfg, skeleton(e)),
                                     "%s(%s) exceeded the recursion limit (no fixed point reached)" % (cfg, e), case)]
    except Exception:
        return "crash", []       # crashes are the business of C01
    vs = []
    steps = st["counter"][0]
    if steps > st.get("max_steps", 0):
        st["max_steps"] = steps
    try:
        r2 = run_simp(cfg, r)
    except (Budget, RecursionError):
        return "nonterm", [violation("%s|step-budget-on-output|%s" % (cfg, skeleton(r)),
                                     "%s on its own output %s (from %s) did not terminate within budget" % (cfg, r, e), case)]
    except Exception as ex:
        return "crash", [violation("%s|crash-on-output:%s|%s" % (cfg, type(ex).__name__, skeleton(r)),
                                   "%s raised %r on its own output %s (from %s)" % (cfg, ex, r, e), case)]
    if r2 is not r:
        vs.append(violation("%s|not-idempotent|%s" % (cfg, skeleton(r)),
                            "%s(%s) = %s but simplifying that again gives %s" % (cfg, e, r, r2), case))
    # cold instance with the same rule table
    cold = S.ExpressionSimplifier()
    cold.expr_simp_cb = dict(st["simps"][cfg].expr_simp_cb)
    st["counter"][0] = 0
    try:
        rc = cold(e)
        rc2 = cold(rc)
    except Exception as ex:
        vs.append(violation("%s|cold-instance-raise:%s|%s" % (cfg, type(ex).__name__, skeleton(e)),
                            "cold-cache %s(%s) raised %r while the long-lived instance returned %s" % (cfg, e, ex, r), case))
        return "ok", vs
    if rc is not r:
        vs.append(violation("%s|cache-not-transparent|%s" % (cfg, skeleton(e)),
                            "%s(%s): long-lived instance gives %s, a fresh instance gives %s" % (cfg, e, r, rc), case))
    if rc2 is not rc:
        vs.append(violation("%s|not-idempotent-cold|%s" % (cfg, skeleton(rc)),
                            "fresh %s(%s) = %s, again = %s" % (cfg, e, rc, rc2), case))
    return ("changed" if r is not e else "ok"), vs


# staged configurations: pass tables enabled one after the other on ONE simplifier that is used in between
# (what EmulatedSymbExec.enable_emulated_simplifications or a user enabling PASS_HIGH_TO_EXPLICIT later does)
STAGED = [("PASS_COMMONS", "PASS_HIGH_TO_EXPLICIT"), ("PASS_HIGH_TO_EXPLICIT", "PASS_COMMONS"),
          ("PASS_COMMONS", "PASS_COND"), ("PASS_COMMONS", "PASS_HEAVY")]


def judge_staged(e, cfg, case):
    """C02 on a simplifier whose pass tables are enabled in stages, the expression (and its first result) having been
    simplified before the last table was enabled: the final output must be a fixed point of the final configuration
    and equal to what a simplifier given all the tables at once returns (results cached before enable_passes must
    not survive it)."""
    st = _setup()
    S = st["S"]
    first, second = cfg[len("staged:"):].split(">")
    cls = S.ExpressionSimplifier
    if not hasattr(cls, first) or not hasattr(cls, second):
        return "skip", []
    vs = []
    for name in (first, second):
        if name not in st["tables"]:
            st["tables"][name] = st["wrapped_table"](name)
    t1, t2 = st["tables"][first], st["tables"][second]
    st["counter"][0] = 0
    try:
        staged = cls()
        staged.enable_passes(t1)
        r0 = staged(e)
        staged(r0)
        staged.enable_passes(t2)
        r = staged(e)
        r2 = staged(r)
        once = cls()
        once.enable_passes(t1)
        once.enable_passes(t2)
        rc = once(e)
    except (Budget, RecursionError):
        return "nonterm", [violation("%s|step-budget|%s" % (cfg, skeleton(e)),
                                     "%s on %s did not terminate within budget" % (cfg, e), case)]
    except Exception:
        return "crash", []
    if r2 is not r:
        vs.append(violation("%s|not-idempotent|%s" % (cfg, skeleton(r)),
                            "simplifier with %s enabled, used, then %s enabled: S(%s) = %s but S of that = %s" % (first, second, e, r, r2), case))
    if rc is not r:
        vs.append(violation("%s|differs-from-tables-enabled-at-once|%s" % (cfg, skeleton(e)),
                            "simplifier with %s enabled, used, then %s enabled: S(%s) = %s, a simplifier given both tables at once returns %s" % (
                                first, second, e, r, rc), case))
    return ("changed" if r is not e else "ok"), vs


# ---------------------------------------------------------------- families / shards

SMALL = (1, 2, 3, 4)


def _sibc(w):
    return [1, (1 << w) - 1, 1 << (w - 1)]


STAGED_FAMILIES = ("compose", "ext_cmp", "mem")
STAGED_FAMILIES_QUICK = ("compose", "mem")


def family_iter(fam, params):
    """Deterministic iterator over the expressions of one family."""
    if fam == "d1":
        widths, = params
        g = exprgen.Gen(widths)
        for w in widths:
            for e in g.depth1(w):
                yield e
    elif fam == "d2spine":
        widths, w, reduced, nids, k, K = params
        g = exprgen.Gen(widths, nids=nids, rich_consts=not reduced, sib_consts=_sibc)
        pool = g.depth1_core if reduced else g.depth1
        for e in g.depth2_spine(w, deep_pool=pool, k=k, K=K):
            yield e
    elif fam == "d2pairs":
        widths, w, nids, k, K = params
        g = exprgen.Gen(widths, nids=nids)
        for e in g.depth2_pairs(w, k=k, K=K):
            yield e
    elif fam == "cc_flags":
        for e in exprgen.fam_cc_flags(*params):
            yield e
    elif fam == "const_ops":
        for e in exprgen.fam_const_ops(*params):
            yield e
    elif fam == "flag_names":
        for e in exprgen.fam_flag_names(*params):
            yield e
    elif fam == "ext_cmp":
        for e in exprgen.fam_ext_cmp(*params):
            yield e
    elif fam == "compose":
        for e in exprgen.fam_compose(*params):
            yield e
    elif fam == "shift_rot":
        for e in exprgen.fam_shift_rot(*params):
            yield e
    elif fam == "arith":
        for e in exprgen.fam_arith(*params):
            yield e
    elif fam == "cond_nary":
        for e in exprgen.fam_cond_nary(*params):
            yield e
    elif fam == "mem":
        for e in exprgen.fam_mem(*params):
            yield e
    elif fam == "wide":
        for e in exprgen.fam_wide(*params):
            yield e
    else:
        raise ValueError(fam)


def _split(fam, head, K):
    return [(fam, tuple(head) + (k, K), 1) for k in range(K)]


def families(tier):
    """List of (family, params, number of modulo-shards)."""
    if tier == "quick":
        out = [("d1", ((1, 2, 3),), 8)]
        out += _split("d2spine", ((1, 2, 3), 1, True, 1), 16)
        out += _split("d2spine", ((1, 2, 3), 2, True, 2), 8)
        out += _split("d2spine", ((1, 2, 3), 3, True, 2), 8)
        out += [
            ("cc_flags", ((1, 2), 2), 8),
            ("flag_names", ((1, 2, 8),), 4),
            ("const_ops", ((2, 3),), 4),
            ("ext_cmp", ((1, 2, 3, 4),), 8),
            ("compose", ((1, 2, 3),), 4),
            ("shift_rot", ((2, 3),), 4),
            ("arith", ((2, 3),), 4),
            ("cond_nary", ((2, 3),), 4),
            ("mem", ((8,), (8, 16, 32)), 1),
            ("wide", ((32, 64, 128),), 4),
        ]
        return out
    out = [("d1", ((1, 2, 3, 4),), 16)]
    out += _split("d2spine", ((1, 2, 3), 1, True, 2), 64)
    out += _split("d2spine", ((1, 2, 3, 4), 2, False, 2), 32)
    out += _split("d2spine", ((1, 2, 3, 4), 3, False, 2), 32)
    out += _split("d2spine", ((1, 2, 3, 4), 4, True, 2), 32)
    out += _split("d2pairs", ((1, 2), 1, 1), 32)
    # (depth-2 pair trees at widths 2 and 3 were dropped from the thorough tier: one modulo shard of that family holds
    #  2.5M trees and alone kept the run at 50 minutes; the spine trees and rule families cover those widths)
    out += [
        ("cc_flags", ((1, 2, 3), 2), 16),
        ("flag_names", ((1, 2, 3, 8, 32),), 8),
        ("const_ops", ((1, 2, 3, 4, 8),), 8),
        ("ext_cmp", ((1, 2, 3, 4, 5, 6, 8),), 16),
        ("compose", ((1, 2, 3, 4),), 16),
        ("shift_rot", ((2, 3, 4, 5, 8),), 16),
        ("arith", ((2, 3, 4, 5),), 16),
        ("cond_nary", ((1, 2, 3, 4, 8),), 8),
        ("mem", ((8, 16), (8, 16, 32, 64)), 2),
        ("wide", ((31, 32, 33, 63, 64, 65, 127, 128),), 8),
    ]
    return out


def shard_worker(args):
    mode, fam, params, idx, nsh = args[:5]
    deep = len(args) > 5 and args[5]
    st = _setup()
    n = nt = 0
    status = {}
    vs = []
    sample = None
    seen_sigs = set()
    extra_inputs = []
    nonterm = 0
    skipped_after_nonterm = 0
    for i, e in enumerate(family_iter(fam, params)):
        if i % nsh != idx:
            continue
        if nonterm >= NONTERM_CAP:
            # every further non-terminating case costs the whole step budget: the shard has reported enough
            skipped_after_nonterm += 1
            continue
        n += 1
        if n % 20000 == 0:
            for s in st["simps"].values():
                s.cache.clear()
        changed = False
        cfgs = CONFIGS
        if mode != "meaning" and fam in (STAGED_FAMILIES if deep else STAGED_FAMILIES_QUICK):
            cfgs = CONFIGS + ["staged:%s>%s" % ab for ab in (STAGED if deep else STAGED[:2])]
        for cfg in cfgs:
            case = {"fam": fam, "params": params, "index": i, "cfg": cfg, "expr": repr(e)}
            if mode == "meaning":
                s, v = judge_meaning(e, cfg, case, deep=deep)
            elif cfg.startswith("staged:"):
                s, v = judge_staged(e, cfg, case)
            else:
                s, v = judge_fixpoint(e, cfg, case)
                if s == "changed":
                    changed = True
                if s == "nonterm":
                    nonterm += 1
            status[s] = status.get(s, 0) + 1
            for x in v:
                if x["sig"] not in seen_sigs or len(vs) < 50:
                    seen_sigs.add(x["sig"])
                    vs.append(x)
        if mode == "meaning":
            # non-trivial: at least one configuration rewrote the expression
            try:
                if any(run_simp(c, e) is not e for c in CONFIGS[:1]):
                    changed = True
            except Exception:
                changed = True
        if changed:
            nt += 1
            if sample is None and i > 50:
                sample = {"family": fam, "index": i, "expr": str(e)}
    return {"n": n, "nt": nt, "status": status, "skipped_after_nonterm": skipped_after_nonterm, "vs": vs, "sample": sample, "fired": dict(st["fired"]),
            "max_steps": st.get("max_steps", 0), "rule_pairs_judged": len(st["judged"]), "rule_level_inconsistencies": st.get("rule_level_inconsistencies", 0),
            "rules": sorted(st["all_rules"])}


def run(ctx, mode):
    shards = []
    fams = families(ctx.tier)
    for fam, params, nsh in fams:
        for i in range(nsh):
            shards.append((mode, fam, params, i, nsh, ctx.tier == "thorough"))
    res = ctx.pmap(shard_worker, shards)
    fired = {}
    rules = set()
    status = {}
    per_family = {}
    for (m, fam, params, i, nsh, _deep), r in zip(shards, res):
        ctx.add_violations(r["vs"])
        rules.update(r["rules"])
        for k, v in r["status"].items():
            status[k] = status.get(k, 0) + v
        key = fam + ":" + repr(params)
        per_family[key] = per_family.get(key, 0) + r["n"]
    # firing counts are cumulative per worker process: take the max seen per rule per worker is not
    # recoverable here, so report the union of rules that fired at least once
    for r in res:
        for k, v in r["fired"].items():
            fired[k] = max(fired.get(k, 0), v)
    never = sorted(rules - set(fired))
    return {
        "evaluations": sum(r["n"] for r in res),
        "distinct_nontrivial": sum(r["nt"] for r in res),
        "configurations": CONFIGS,
        "judgements_by_status": status,
        "expressions_not_judged_after_%d_non_terminations_in_their_shard" % NONTERM_CAP: sum(r.get("skipped_after_nonterm", 0) for r in res),
        "per_family_expressions": per_family,
        "rules_fired_at_least": fired,
        "rules_never_fired": never,
        "max_rule_applications_for_one_expression": max([r.get("max_steps", 0) for r in res] + [0]),
        "rule_level_rewrites_judged(max per worker)": max([r.get("rule_pairs_judged", 0) for r in res] + [0]),
        "rule_level_inconsistencies(max per worker)": max([r.get("rule_level_inconsistencies", 0) for r in res] + [0]),
        "samples": [r["sample"] for r in res if r["sample"]][:6],
        "exhaustive": True,
        "bounds": {"families": [[f, repr(p)] for f, p, _ in fams], "step_budget": STEP_BUDGET,
                   "valuations": "all valuations when the identifiers total <= 10 bits, boundary product otherwise; "
                                 "3 memory contents when a memory read occurs"},
    }


def replay(case, mode):
    """Re-evaluate one recorded case: rebuild the expression from its repr (trusted only for replay)."""
    e = None
    try:
        params = _totuple(case["params"])
        for i, x in enumerate(family_iter(case["fam"], params)):
            if i == case["index"]:
                if repr(x) == case["expr"]:
                    e = x
                break
    except Exception:
        e = None
    if e is None:
        import miasm.expression.expression as m
        ns = {k: getattr(m, k) for k in dir(m) if k.startswith("Expr")}
        e = eval(case["expr"], ns)
    if mode == "meaning":
        return judge_meaning(e, case["cfg"], case)[1]
    if case["cfg"].startswith("staged:"):
        return judge_staged(e, case["cfg"], case)[1]
    return judge_fixpoint(e, case["cfg"], case)[1]


def _totuple(x):
    if isinstance(x, list):
        return tuple(_totuple(i) for i in x)
    return x
