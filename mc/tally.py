"""Per-outcome transition counters for bfs.explore without touching mc/bfs.py.

`bfs.explore` only reports the *number* of distinct outcomes. Wrapping the runner context lets a check count how
many transitions produced each outcome (operation, refused / collided / boundary class ...), which is what makes
vacuity visible in the evidence:

    tctx = TallyCtx(ctx)
    cov = bfs.explore(tctx, system, ...)
    cov["outcome_counts"] = tctx.table()          # {"op|class|...": transitions}

Everything else (violation(), quick, tier, ...) is forwarded to the real context.
"""
import collections


class TallyCtx(object):
    def __init__(self, ctx, key=None):
        self._ctx = ctx
        self._key = key or (lambda oc: oc)
        self.outcomes = collections.Counter()

    def __getattr__(self, name):
        return getattr(self._ctx, name)

    def pmap(self, fn, shards, chunksize=1):
        res = self._ctx.pmap(fn, shards, chunksize)
        for recs in res:
            if not isinstance(recs, list):
                continue
            for rec in recs:
                # records of bfs._expand: (seed_idx, hist, key, probs, outcome)
                if isinstance(rec, tuple) and len(rec) == 5 and rec[4] is not None:
                    self.outcomes[self._key(rec[4])] += 1
        return res

    def table(self):
        out = {}
        for k, v in self.outcomes.items():
            out["|".join(str(i) for i in k) if isinstance(k, tuple) else str(k)] = v
        return dict(sorted(out.items()))
