"""Shared machinery of C05 (z3), C06 (SMT-LIB2) and C07a (Python source): a translator judged against mc.refsem.

A *backend* wraps one translator:

    backend.name                      "z3" | "smt2" | "python"
    backend.big_endian                byte order given to the translator (memory reads)
    backend.translate(e) -> handle    runs the real translator (NotImplementedError = operator not accepted)
    backend.evaluate(handle, e, ids, vals, memctx) -> int
                                      closes the translation under the valuation and returns its value
                                      (z3 backends: substitution + z3.simplify, the folder below; no Solver anywhere)

The lattice comes from mc.exprgen restricted (FGen) to the node kinds the translator accepts; acceptance is
*probed* on the real translator (one instance per node kind and width), never hard-coded.

Every (expression, valuation, memory content) is evaluated by refsem (oracle) and by the backend; a
disagreement is attributed to the deepest sub-expression whose own translation disagrees under the same
valuation, and the signature names translator | operator | operand class of that node.
"""
import itertools
import sys

from mc import exprgen, refsem
from mc.runner import violation

SMALL = (1, 2, 3, 4)
ALL_BITS = 10            # every valuation when the identifiers total at most this many bits
MEM_DEFAULT = 0xA5       # byte of every address outside the window around the addresses the reference reads
MEM_WINDOW = 4
MAX_PER_SIG = 3          # violations kept per signature and shard (total is counted)


def alt_mem(ps, a):
    return 0xFF if a & 1 else 0x80


MEMS = [refsem.pattern_mem, alt_mem]


def mask(w):
    return (1 << w) - 1


# ------------------------------------------------------------------ tags / classes (signatures)

def norm_tag(tag):
    if tag.startswith("slice"):
        return "slice"
    if tag.startswith("cond"):
        return "cond"
    if tag in ("compose2", "compose3"):
        return "compose"
    if tag == "neg":
        return "-"
    return tag


def node_tag(e):
    if e.is_op():
        if e.op.startswith("zeroExt_"):
            return "zeroExt"
        if e.op.startswith("signExt_"):
            return "signExt"
        return e.op
    for k in ("slice", "compose", "cond", "mem", "id", "int", "loc"):
        if getattr(e, "is_" + k)():
            return k
    return type(e).__name__


def children(e):
    if e.is_op() or e.is_compose():
        return list(e.args)
    if e.is_slice():
        return [e.arg]
    if e.is_cond():
        return [e.cond, e.src1, e.src2]
    if e.is_mem():
        return [e.ptr]
    return []


def sgn(v, w):
    if v is None:
        return "undef"
    if v == 0:
        return "0"
    return "neg" if v >> (w - 1) else "pos"


def cnt_cls(c, w):
    if c is None:
        return "undef"
    if c == 0:
        return "count0"
    if c < w:
        return "count<size"
    if c == w:
        return "count=size"
    return "count>size"


DIVS = set(exprgen.DIVS)
SHIFTS = set(exprgen.SHIFTS)


def operand_class(e, cv, big_endian=False):
    """Class of the operands of node e; cv = reference values of its children (None where undefined)."""
    if e.is_op():
        op = e.op
        w = e.args[0].size
        if op in DIVS:
            a, b = cv
            if a is None or b is None:
                return "undef"
            if w > 1 and a == 1 << (w - 1) and b == mask(w):
                return "intmin-by-minus1"
            return {(0, 0): "nonneg", (1, 0): "neg-dividend", (0, 1): "neg-divisor",
                    (1, 1): "neg-both"}[(a >> (w - 1), b >> (w - 1))]
        if op in SHIFTS:
            a, c = cv
            out = cnt_cls(c, w)
            if op in ("<<<", ">>>"):
                out += ",pow2-width" if w & (w - 1) == 0 else ",npow2-width"
            if op == "a>>":
                out = sgn(a, w) + "," + out
            return out
        if op in ("cntleadzeros", "cnttrailzeros"):
            a = cv[0]
            if a is None:
                return "undef"
            if a == 0:
                return "arg0"
            return "single-bit" if a & (a - 1) == 0 else "multi-bit"
        if op == "parity":
            a = cv[0]
            if a is None:
                return "undef"
            return "low-byte-popcount-even" if bin(a & 0xFF).count("1") % 2 == 0 else "low-byte-popcount-odd"
        if op in exprgen.CMPS:
            a, b = cv
            if a is not None and a == b:
                return "equal"
            return "%s,%s" % (sgn(a, w), sgn(b, w))
        if op.startswith("zeroExt_") or op.startswith("signExt_"):
            return sgn(cv[0], w)
        return "arity%d" % len(e.args)
    if e.is_slice():
        return "lo" if e.start == 0 else ("hi" if e.stop == e.arg.size else "mid")
    if e.is_compose():
        return "arity%d" % len(e.args)
    if e.is_cond():
        c = cv[0]
        return "cond%s,%s" % ("1bit" if e.cond.size == 1 else "wide",
                              "undef" if c is None else ("true" if c else "false"))
    if e.is_mem():
        return mem_class(e, cv[0], big_endian)
    return "leaf"


def mem_class(e, addr, big_endian):
    nb = (e.size + 7) // 8
    out = "be" if big_endian else "le"
    out += ",nonbyte" if e.size % 8 else (",1byte" if nb == 1 else ",multibyte")
    if addr is not None and addr + nb > 1 << e.ptr.size:
        out += ",wraps"
    return out


def struct_class(e, big_endian):
    """Class of a node when no valuation is at hand (translation-time failures)."""
    if e.is_mem():
        return mem_class(e, None, big_endian)
    if e.is_op():
        if e.op == "parity":
            return "width<8" if e.args[0].size < 8 else "width>=8"
        return "arity%d" % len(e.args)
    return operand_class(e, [None] * len(children(e)), big_endian)


# ------------------------------------------------------------------ lattice

HASH_M = (1 << 61) - 1      # CPython hashes ints modulo 2**61-1: constants differing by a multiple collide


def collision_consts(w, limit=None):
    """Constants of width w (>= 61) on the hash-collision boundaries of CPython ints: k*(2**61-1) and neighbours,
    2**61, 2**61+1, (2**61)**2 ...; empty below 61 bits."""
    if w < 61:
        return []
    vals = set([0, 1, 2, 1 << 61, (1 << 61) + 1])
    for k in (1, 2, 3, 7, 8, 1 << 61, (1 << 61) + 1, HASH_M):
        for d in (-1, 0, 1):
            vals.add(k * HASH_M + d)
    vals.add(1 << 122)
    out = sorted(v for v in vals if 0 <= v < (1 << w))
    return out[:limit] if limit else out


class FGen(exprgen.Gen):
    """exprgen.Gen restricted to the node kinds in `keep` (normalised tags)."""

    def __init__(self, widths, keep, **kw):
        exprgen.Gen.__init__(self, widths, **kw)
        self.keep = keep

    def ints(self, w):
        """Constant alphabet, plus the hash-collision boundary constants at widths >= 61."""
        out = exprgen.Gen.ints(self, w)
        if w >= 61:
            import miasm.expression.expression as E
            have = set(int(c) for c in out)
            out = out + [E.ExprInt(v, w) for v in collision_consts(w) if v not in have]
        return out

    def specs(self, w):
        key = ("fspecs", w)
        if key not in self._memo:
            self._memo[key] = [s for s in exprgen.Gen.specs(self, w) if norm_tag(s[0]) in self.keep]
        return self._memo[key]

    def depth1(self, w):
        key = ("fd1", w)
        if key not in self._memo:
            self._memo[key] = [e for e in exprgen.Gen.depth1(self, w) if not e.is_op() or node_tag(e) in self.keep]
        return self._memo[key]


    def depth1_one(self, w):
        """One instance per node kind: children are distinct identifiers (x, y, x)."""
        key = ("fd1one", w)
        if key not in self._memo:
            self._memo[key] = [build([self.ids(cw)[i % self.nids] for i, cw in enumerate(cws)])
                               for tag, cws, build, comm in self.specs(w)]
        return self._memo[key]


def _sibc(w):
    return [1, mask(w), 1 << (w - 1)]


def _sib1(w):
    return [mask(w)]


_probe_cache = {}


def probe(backend, widths=SMALL):
    """Which node kinds does the real translator accept?  -> (accepted {tag: n}, rejected {tag: n})"""
    key = (backend.name, backend.big_endian, tuple(widths))
    if key not in _probe_cache:
        _probe_cache[key] = _probe(backend, widths)
    return _probe_cache[key]


def _probe(backend, widths):
    import miasm.expression.expression as E
    g = exprgen.Gen(widths)
    acc, rej = {}, {}
    cases = []
    for w in widths:
        for tag, cws, build, comm in g.specs(w):
            cases.append((norm_tag(tag), build([g.ids(cw)[i % 2] for i, cw in enumerate(cws)])))
    cases.append(("**", E.ExprOp("**", g.ids(2)[0], g.ids(2)[1])))
    cases.append(("mem", E.ExprMem(E.ExprId("p8", 8), 8)))
    for t, e in cases:
        try:
            backend.translate(e)
            acc[t] = acc.get(t, 0) + 1
        except NotImplementedError:
            rej[t] = rej.get(t, 0) + 1
        except Exception:
            acc[t] = acc.get(t, 0) + 1      # accepted; the failure is judged on the lattice
    return acc, rej


def wide_gen_widths(w, maxw):
    return tuple(sorted(set(x for x in (w // 2, w, 2 * w) if 1 <= x <= maxw)))


def fam_mem(ptr_widths, data_sizes):
    """Memory reads: pointer width x data size x shapes (constant pointers at the top of the address space,
    computed / conditional / loaded pointers, reads combined with every accepted node kind)."""
    import miasm.expression.expression as E
    for pw in ptr_widths:
        p = E.ExprId("p%d" % pw, pw)
        q = E.ExprId("q%d" % pw, pw)
        c1 = E.ExprId("c1", 1)
        top = mask(pw)
        for dw in data_sizes:
            nb = (dw + 7) // 8
            m = E.ExprMem(p, dw)
            yield m
            yield E.ExprMem(E.ExprOp("+", p, E.ExprInt(1, pw)), dw)
            yield E.ExprMem(E.ExprInt(top, pw), dw)
            yield E.ExprMem(E.ExprInt(top - 1, pw), dw)
            yield E.ExprMem(E.ExprInt(0, pw), dw)
            yield E.ExprMem(E.ExprOp("+", p, q), dw)
            yield E.ExprMem(E.ExprCond(c1, p, q), dw)
            if pw % 8 == 0:
                yield E.ExprMem(E.ExprMem(p, pw), dw)
            yield E.ExprOp("+", m, E.ExprMem(q, dw))
            yield E.ExprOp("^", m, E.ExprMem(E.ExprOp("+", p, E.ExprInt(nb, pw)), dw))
            yield E.ExprCompose(m, E.ExprMem(E.ExprOp("+", p, E.ExprInt(nb, pw)), dw))
            yield E.ExprSlice(m, 0, 1)
            yield E.ExprSlice(m, dw - 1, dw)
            if dw > 8:
                yield E.ExprSlice(m, 4, dw - 3)
                yield E.ExprOp(">>", m, E.ExprInt(8, dw))
                yield E.ExprOp("<<<", m, E.ExprInt(8, dw))
            yield E.ExprCond(m, p, q)
            yield E.ExprOp("==", m, E.ExprInt(0, dw))
            yield E.ExprOp("==", m, E.ExprMem(q, dw))
            yield E.ExprOp("-", m)
            yield E.ExprOp("a>>", m, E.ExprInt(1, dw))
            yield E.ExprOp("<s", m, E.ExprInt(0, dw))
            yield E.ExprOp("parity", m)
            yield E.ExprOp("cntleadzeros", m)
            yield m.signExtend(dw * 2)
            yield m.zeroExtend(dw + 1)


def hist_pairs(w, keep):
    """Ordered pairs (E1, E2) of expressions of width w >= 61 that differ only in a constant taken from the
    hash-collision boundary alphabet, for every shape; ONE translator instance translates E1 then E2."""
    import miasm.expression.expression as E
    x, y = E.ExprId("x%d" % w, w), E.ExprId("y%d" % w, w)
    cs = collision_consts(w, limit=14)
    shapes = [lambda c: E.ExprInt(c, w),
              lambda c: E.ExprOp("+", x, E.ExprInt(c, w)),
              lambda c: E.ExprCond(x, E.ExprInt(c, w), y),
              lambda c: E.ExprCompose(E.ExprInt(c, w)[0:w // 2], x[w // 2:w])]
    for sh in shapes:
        for c1 in cs:
            for c2 in cs:
                if c1 != c2:
                    yield [sh(c1), sh(c2)]


def fam_iter(fam, params, keep):
    if fam == "d1":
        widths, w = params
        for e in FGen(widths, keep).depth1(w):
            yield e
    elif fam == "d2":
        widths, w, pool, nids, sib, k, K = params
        g = FGen(widths, keep, nids=nids, rich_consts=(pool == "full"), sib_consts=_sibc if sib == "3c" else _sib1)
        pool = {"full": g.depth1, "core": g.depth1_core, "one": g.depth1_one}[pool]
        for e in g.depth2_spine(w, deep_pool=pool, k=k, K=K):
            yield e
    elif fam == "wide":
        w, maxw, rich = params
        g = FGen(wide_gen_widths(w, maxw), keep, nids=2, rich_consts=False)
        for e in (g.depth1(w) if rich else g.depth1_core(w)):
            yield e
    elif fam == "mem":
        for e in fam_mem(*params):
            yield e
    else:
        raise ValueError(fam)


# ------------------------------------------------------------------ valuations

def _reduced(w):
    m = mask(w)
    extra = (HASH_M, 1 << 61) if w >= 62 else ()
    return sorted(set(x & m for x in (0, 1, 2, w - 1, w, w + 1, (1 << (w - 1)) - 1, 1 << (w - 1), (1 << (w - 1)) + 1,
                                      m - 1, m, int("55" * ((w + 7) // 8), 16)) + extra))


def boundary(w):
    """refsem.boundary(w) plus, from 61 bits, the hash-collision boundary constants of CPython ints."""
    return sorted(set(refsem.boundary(w)) | set(collision_consts(w)))


_vcache = {}


def valuations(widths, quick):
    """All valuations when the identifiers total <= ALL_BITS bits; the boundary lattice product above
    (full B(w) for one identifier and, in thorough, for two; a 12-value reduction otherwise)."""
    key = (tuple(widths), quick)
    if key in _vcache:
        return _vcache[key]
    if sum(widths) <= ALL_BITS:
        lists = [range(1 << w) for w in widths]
    else:
        n_wide = sum(1 for w in widths if w > 4)
        lists = []
        for w in widths:
            if w <= 4:
                lists.append(range(1 << w))
            elif n_wide == 1 or (n_wide == 2 and not quick):
                lists.append(boundary(w))
            else:
                lists.append(_reduced(w))
    vals = list(itertools.product(*lists))
    _vcache[key] = vals
    return vals


# ------------------------------------------------------------------ memory context

class MemCtx(object):
    """Finite memory: bytes of MEMS[idx] on a window around the addresses the reference evaluation touched,
    MEM_DEFAULT elsewhere.  The same object feeds the reference and the backend (K array + Store chain)."""

    def __init__(self, idx, touched):
        self.idx = idx
        content = MEMS[idx]
        self.tables = {}
        self._keys = {}
        for ps, addrs in touched.items():
            m = mask(ps)
            t = {}
            for a in addrs:
                for d in range(-MEM_WINDOW, MEM_WINDOW + 1):
                    x = (a + d) & m
                    t[x] = content(ps, x)
            self.tables[ps] = t

    def read(self, ps, a):
        t = self.tables.get(ps)
        if t is None:
            return MEM_DEFAULT
        return t.get(a, MEM_DEFAULT)

    def key(self, ps):
        k = self._keys.get(ps)
        if k is None:
            k = self._keys[ps] = (self.idx, ps, tuple(sorted(self.tables.get(ps, ()))))
        return k


def mem_ptr_sizes(e):
    out = []

    def walk(x):
        if x.is_mem() and x.ptr.size not in out:
            out.append(x.ptr.size)
        for c in children(x):
            walk(c)
    walk(e)
    return out


def ref_expr(e):
    """(expression given to refsem, has_nonbyte).  A read of a size that is not a byte multiple has no miasm
    meaning (symbexec asserts size % 8 == 0); for information only it is compared with the low bits of the
    little-endian read of the covering bytes."""
    import miasm.expression.expression as E
    found = []

    def fix(x):
        if x.is_mem() and x.size % 8:
            found.append(x)
            return E.ExprSlice(E.ExprMem(x.ptr, (x.size // 8 + 1) * 8), 0, x.size)
        return x
    r = e.visit(fix)
    return r, bool(found)


# ------------------------------------------------------------------ z3 as a constant folder

class NotNumeral(Exception):
    pass


class Z3Fold(object):
    """substitute + simplify through the C API (4x cheaper than the python wrappers). No Solver is created."""

    def __init__(self):
        if "/verif/.deps" not in sys.path:
            sys.path.insert(0, "/verif/.deps")
        import z3
        self.z3 = z3
        self.ctx = z3.main_ctx()
        self.c = self.ctx.ref()
        self._val = {}
        self._var = {}
        self._arrvar = {}
        self._arr = {}
        self._closer = None

    def val(self, v, w):
        k = (v, w)
        r = self._val.get(k)
        if r is None:
            if len(self._val) > 200000:
                self._val.clear()
            r = self._val[k] = self.z3.BitVecVal(v, w)
        return r

    def var(self, name, w):
        k = (name, w)
        r = self._var.get(k)
        if r is None:
            r = self._var[k] = self.z3.BitVec(name, w)
        return r

    def arrvar(self, ps):
        r = self._arrvar.get(ps)
        if r is None:
            z3 = self.z3
            r = self._arrvar[ps] = z3.Array("mem%d" % ps, z3.BitVecSort(ps), z3.BitVecSort(8))
        return r

    def arr(self, memctx, ps):
        k = memctx.key(ps)
        r = self._arr.get(k)
        if r is None:
            z3 = self.z3
            if len(self._arr) > 5000:
                self._arr.clear()
            r = z3.K(z3.BitVecSort(ps), self.val(MEM_DEFAULT, 8))
            t = memctx.tables.get(ps, {})
            for a in sorted(t):
                r = z3.Store(r, self.val(a, ps), self.val(t[a], 8))
            self._arr[k] = r
        return r

    def fold(self, term, pairs):
        """pairs: [(z3 constant, z3 closed term)] -> int value of the closed term after simplification."""
        z3 = self.z3
        n = len(pairs)
        frm = (z3.Ast * n)(*[p[0].as_ast() for p in pairs])
        to = (z3.Ast * n)(*[p[1].as_ast() for p in pairs])
        return self._fold(term.as_ast(), n, frm, to)

    def _fold(self, s, n, frm, to):
        z3 = self.z3
        c = self.c
        if n:
            s = z3.Z3_substitute(c, s, n, frm, to)
        z3.Z3_inc_ref(c, s)
        try:
            q = z3.Z3_simplify(c, s)
            z3.Z3_inc_ref(c, q)
            try:
                if z3.Z3_get_ast_kind(c, q) != z3.Z3_NUMERAL_AST:
                    raise NotNumeral(z3.Z3_ast_to_string(c, q)[:200])
                return int(z3.Z3_get_numeral_string(c, q))
            finally:
                z3.Z3_dec_ref(c, q)
        finally:
            z3.Z3_dec_ref(c, s)

    def closer(self, term, e, ids, memctx):
        """-> f(vals): the value of term with every identifier replaced by its numeral and every memory array of e
        replaced by the K/Store array of memctx (substitution tables built once per expression and memory)."""
        z3 = self.z3
        frm_refs = [self.var(str(i), i.size) for i in ids]
        to_fixed = []
        if memctx is not None:
            for ps in mem_ptr_sizes(e):
                frm_refs.append(self.arrvar(ps))
                to_fixed.append(self.arr(memctx, ps))
        n = len(frm_refs)
        nid = len(ids)
        frm = (z3.Ast * n)(*[r.as_ast() for r in frm_refs])
        to = (z3.Ast * n)()
        for k, r in enumerate(to_fixed):
            to[nid + k] = r.as_ast()
        widths = [i.size for i in ids]
        ast = term.as_ast()
        val = self.val
        fold = self._fold
        keep = (term, frm_refs, to_fixed)

        def run(vals, keep=keep):
            for k in range(nid):
                to[k] = val(vals[k], widths[k]).ast
            return fold(ast, n, frm, to)
        return run

    def close_and_fold(self, term, e, ids, vals, memctx):
        key = (term.get_id(), id(memctx))
        c = self._closer
        if c is None or c[0] != key or c[1] is not memctx or c[2] is not term:
            c = self._closer = (key, memctx, term, self.closer(term, e, ids, memctx))
        return c[3](vals)


_folder = []


def folder():
    if not _folder:
        _folder.append(Z3Fold())
    return _folder[0]


class SkipEval(Exception):
    """The backend declines to evaluate this valuation (counted under the given reason)."""


# ------------------------------------------------------------------ judging

def new_stats():
    return {"expressions": 0, "accepted_expressions": 0, "evaluations": 0, "undefined_skipped": 0,
            "not_accepted_expressions": 0, "no_reference": 0, "nontrivial": 0, "agree": 0,
            "nonbyte_mem_expressions": 0, "nonbyte_mem_be_no_reference": 0, "nonbyte_le_extension_evals": 0,
            "nonbyte_le_extension_disagree": 0, "skipped_evals": {}, "per_op_evals": {}, "per_op_rejected": {},
            "sig_counts": {}, "outcomes": set()}


def merge_stats(a, b):
    for k, v in b.items():
        if isinstance(v, dict):
            d = a.setdefault(k, {})
            for kk, vv in v.items():
                d[kk] = d.get(kk, 0) + vv
        elif isinstance(v, set):
            a[k] = a.get(k, set()) | v
        else:
            a[k] = a.get(k, 0) + v
    return a


def _bump(d, k, n=1):
    d[k] = d.get(k, 0) + n


def _first_rejected(backend, e):
    """Deepest node whose own translation raises NotImplementedError."""
    for ch in children(e):
        try:
            backend.translate(ch)
        except NotImplementedError:
            return _first_rejected(backend, ch)
        except Exception:
            pass
    return e


def _first_crashing(backend, e):
    for ch in children(e):
        try:
            backend.translate(ch)
        except NotImplementedError:
            continue
        except Exception:
            return _first_crashing(backend, ch)
    return e


class ExprCache(object):
    """Translations and compiled reference functions of the sub-expressions of one expression (per judge call)."""

    def __init__(self, backend, ids):
        self.backend = backend
        self.ids = ids
        self._h = {}
        self._fn = {}

    def handle(self, x):
        r = self._h.get(x)
        if r is None:
            try:
                r = (True, self.backend.translate(x))
            except Exception as ex:
                r = (False, ex)
            self._h[x] = r
        if not r[0]:
            raise r[1]
        return r[1]

    def ref(self, x, vals, memfn):
        """Reference value of x (None when undefined / without reference)."""
        fn = self._fn.get(x)
        if fn is None:
            try:
                fn = refsem.compile_expr(ref_expr(x)[0], self.ids, self.backend.big_endian)
            except refsem.Unsupported:
                fn = False
            self._fn[x] = fn
        if fn is False:
            return None
        try:
            return fn(vals, memfn)
        except refsem.Undefined:
            return None


def backend_value(backend, h, e, ids, vals, memctx):
    try:
        return backend.evaluate(h, e, ids, vals, memctx)
    except SkipEval:
        raise
    except NotNumeral as ex:
        return ("not-closed", str(ex))
    except Exception as ex:
        return ("eval-raises", type(ex).__name__, str(ex)[:160])


def blame(cache, e, got, vals, memctx):
    """Deepest sub-expression whose own translation disagrees with the reference under this valuation.
    -> (node, value its translation gives)"""
    backend = cache.backend
    memfn = memctx.read if memctx is not None else refsem.no_mem
    for ch in children(e):
        if ch.is_int() or ch.is_id():
            continue
        want = cache.ref(ch, vals, memfn)
        if want is None:
            continue
        try:
            h = cache.handle(ch)
            g = backend_value(backend, h, ch, cache.ids, vals, memctx)
        except SkipEval:
            continue
        except Exception as ex:
            return blame(cache, ch, ("translate-raises", type(ex).__name__), vals, memctx)
        if g != want:
            return blame(cache, ch, g, vals, memctx)
    return e, got


def signature(cache, node, ngot, vals, memctx):
    backend = cache.backend
    memfn = memctx.read if memctx is not None else refsem.no_mem
    cv = [cache.ref(c, vals, memfn) for c in children(node)]
    sig = "%s|%s|%s" % (backend.name, node_tag(node), operand_class(node, cv, backend.big_endian))
    if isinstance(ngot, tuple):
        sig += "|%s" % (ngot[0] if ngot[0] == "not-closed" else "%s:%s" % (ngot[0], ngot[1]))
    return sig


def describe(cache, e, node, vals, memctx, want, got):
    backend = cache.backend
    memfn = memctx.read if memctx is not None else refsem.no_mem
    env = ", ".join("%s=0x%x" % (i, v) for i, v in zip(cache.ids, vals))
    what = "%s translation of %s%s under {%s}%s: reference value 0x%x, translation gives %s" % (
        backend.name, e, " (%s-endian memory)" % ("big" if backend.big_endian else "little") if memctx is not None else "",
        env, " memory#%d" % memctx.idx if memctx is not None else "", want,
        ("0x%x" % got) if isinstance(got, int) else repr(got))
    if node is not e:
        nwant = cache.ref(node, vals, memfn)
        what += "; first disagreeing node: %s (reference 0x%x)" % (node, nwant if nwant is not None else -1)
    try:
        what += "; emitted: %s" % backend.show(node)[:300]
    except Exception:
        pass
    return what


def make_case(backend, e, ids, vals, memidx, quick=True):
    return {"tr": backend.name, "be": backend.big_endian, "expr": repr(e),
            "vals": {str(i): v for i, v in zip(ids, vals)}, "mem": memidx, "quick": bool(quick)}


def judge(backend, e, st, vs, quick, only=None, hist=None):
    """Judge one expression over its valuations (or only=(vals, memidx) for replay).
    hist=(handle, history case, class): judge the translation a SHARED translator instance produced after the
    recorded history instead of a fresh translation (signature translator|shared-instance|kind|class)."""
    st["expressions"] += 1
    tag = node_tag(e)
    try:
        h = backend.translate(e) if hist is None else hist[0]
    except NotImplementedError:
        st["not_accepted_expressions"] += 1
        _bump(st["per_op_rejected"], node_tag(_first_rejected(backend, e)))
        return
    except Exception as ex:
        node = _first_crashing(backend, e)
        sig = "%s|%s|%s|translate-raises:%s" % (backend.name, node_tag(node), struct_class(node, backend.big_endian),
                                                 type(ex).__name__)
        _bump(st["sig_counts"], sig)
        if st["sig_counts"][sig] <= MAX_PER_SIG:
            vs.append(violation(sig, "%s translator raised %r on %s%s (accepted node kinds only; smallest failing "
                                     "sub-expression: %s)" % (backend.name, ex, e,
                                                              " with big-endian memory" if backend.big_endian else "", node),
                                make_case(backend, e, [], [], None, quick)))
        return
    st["accepted_expressions"] += 1
    ids = refsem.free_ids(e)
    eref, nonbyte = ref_expr(e)
    if nonbyte:
        st["nonbyte_mem_expressions"] += 1
        if backend.big_endian:
            st["nonbyte_mem_be_no_reference"] += 1
            return
    try:
        fn = refsem.compile_expr(eref, ids, backend.big_endian)
    except refsem.Unsupported:
        st["no_reference"] += 1
        return
    hasmem = refsem.has_mem(e)
    vl = valuations([i.size for i in ids], quick)
    if only is not None:
        # replay: the same finite memory as in the run (built from every valuation), one valuation evaluated
        only_vals = tuple(only[0])
        todo = [(only[1] if hasmem else None, vl if only_vals in vl else [only_vals])]
    else:
        only_vals = None
        todo = [(mi, vl) for mi in (range(len(MEMS)) if hasmem else [None])]
    outcomes = set()
    seen = set()
    cache = None
    for memidx, vl in todo:
        # pass 1: reference values; with memory, the addresses read under every valuation are collected and ONE
        # finite memory (window around all of them, default byte elsewhere) serves the reference and the backend
        wants = []
        memctx = None
        if hasmem:
            touched = {}
            content = MEMS[memidx]

            def rec(ps, a, touched=touched, content=content):
                touched.setdefault(ps, set()).add(a)
                return content(ps, a)
            memfn = rec
        else:
            memfn = refsem.no_mem
        for vals in vl:
            try:
                wants.append(fn(vals, memfn))
            except refsem.Undefined:
                wants.append(None)
        if hasmem:
            memctx = MemCtx(memidx, touched)
        for vals, want in zip(vl, wants):
            if only_vals is not None and vals != only_vals:
                continue
            if want is None:
                st["undefined_skipped"] += 1
                continue
            if hasmem and fn(vals, memctx.read) != want:
                raise AssertionError("finite memory disagrees with the content function on %s %r" % (e, vals))
            try:
                got = backend_value(backend, h, e, ids, vals, memctx)
            except SkipEval as ex:
                _bump(st["skipped_evals"], str(ex))
                continue
            if nonbyte:
                st["nonbyte_le_extension_evals"] += 1
                if got != want:
                    st["nonbyte_le_extension_disagree"] += 1
                continue
            st["evaluations"] += 1
            _bump(st["per_op_evals"], tag)
            outcomes.add(want)
            if got == want:
                st["agree"] += 1
                continue
            if cache is None:
                cache = ExprCache(backend, ids)
            if hist is not None:
                sig = "%s|shared-instance|%s|%s" % (backend.name, tag, hist[2])
                if isinstance(got, tuple):
                    sig += "|%s" % got[0]
                _bump(st["sig_counts"], sig)
                if sig in seen or st["sig_counts"][sig] > MAX_PER_SIG:
                    continue
                seen.add(sig)
                case = make_case(backend, e, ids, vals, memidx, quick)
                case["hist"] = hist[1]
                vs.append(violation(sig, "one %s translator instance, after translating %s, translates %s into a term whose "
                                         "value under {%s} is %s; reference value and a fresh instance give 0x%x" % (
                                             backend.name, hist[3], e,
                                             ", ".join("%s=0x%x" % (i, v) for i, v in zip(ids, vals)),
                                             ("0x%x" % got) if isinstance(got, int) else repr(got), want), case))
                continue
            node, ngot = blame(cache, e, got, vals, memctx)
            sig = signature(cache, node, ngot, vals, memctx)
            _bump(st["sig_counts"], sig)
            if sig in seen or st["sig_counts"][sig] > MAX_PER_SIG:
                continue
            seen.add(sig)
            vs.append(violation(sig, describe(cache, e, node, vals, memctx, want, got),
                                make_case(backend, e, ids, vals, memidx, quick)))
    if len(outcomes) >= 2:
        st["nontrivial"] += 1
    if len(st["outcomes"]) < 4096:
        st["outcomes"].update(itertools.islice(outcomes, 64))


def _hist_class(backend, h, earlier):
    """Does the shared instance return the translation of an earlier, different expression?"""
    for x in earlier:
        try:
            if backend.same(h, backend.translate(x)):
                return "returns-translation-of-earlier-expression", x
        except Exception:
            pass
    return "differs-from-fresh-instance", None


def judge_history(backend, seq, st, vs, quick, hist_case, only=None, check_all=False):
    """ONE translator instance translates seq in order.  The translation of the last element (check_all: of every
    element) must be the translation a fresh instance gives; when it is not, it is judged against the reference."""
    tr = backend.new_instance()
    seen = []
    for k, e in enumerate(seq):
        last = k == len(seq) - 1
        try:
            h = backend.translate(e, tr)
        except Exception:
            seen.append(e)
            continue                     # failures of the translation itself are judged by the bulk families
        if last or check_all:
            st["history_checked"] = st.get("history_checked", 0) + 1
            try:
                hf = backend.translate(e)
                same = backend.same(h, hf)
            except Exception:
                same = True
            if not same:
                st["history_differs_from_fresh"] = st.get("history_differs_from_fresh", 0) + 1
                cls, src = _hist_class(backend, h, [x for x in seen if x is not e])
                hc = dict(hist_case)
                hc["upto"] = k
                desc = ("%s" % src) if src is not None else "%d other expressions (last: %s)" % (len(seen), seen[-1] if seen else None)
                judge(backend, e, st, vs, quick, only=only, hist=(h, hc, cls, desc))
        seen.append(e)
        if len(seen) > 64:
            del seen[:32]


def hist_sequences(fam, params, keep):
    """-> iterator of (history case, sequence, check_all)"""
    if fam == "hpairs":
        w, = params
        for i, seq in enumerate(hist_pairs(w, keep)):
            yield {"fam": fam, "params": params, "index": i}, seq, False
    elif fam == "hseq":
        sub, subparams = params
        yield {"fam": fam, "params": params, "index": 0}, list(fam_iter(sub, subparams, keep)), True
    else:
        raise ValueError(fam)


def shard_worker(args):
    if args[3] in ("hpairs", "hseq"):
        return hist_worker(args)
    return _shard_worker(args)


def hist_worker(args):
    make_backend, bname, be, fam, params, idx, nsh, quick = args
    backend = make_backend(bname, be)
    acc, rej = probe(backend)
    st = new_stats()
    vs = []
    n = 0
    for i, (hc, seq, check_all) in enumerate(hist_sequences(fam, params, set(acc))):
        if i % nsh != idx:
            continue
        n += 1
        judge_history(backend, seq, st, vs, quick, hc, check_all=check_all)
    st["history_sequences"] = n
    st["outcomes"] = set(itertools.islice(sorted(st["outcomes"]), 512))
    sample = {"translator": bname, "family": fam, "params": repr(params), "sequences": n,
              "translations_compared_with_fresh_instance": st.get("history_checked", 0)}
    return {"st": st, "vs": vs, "sample": sample, "accepted": sorted(acc), "rejected": sorted(set(rej) - set(acc))}


def _shard_worker(args):
    make_backend, bname, be, fam, params, idx, nsh, quick = args
    backend = make_backend(bname, be)
    acc, rej = probe(backend)
    keep = set(acc)
    st = new_stats()
    vs = []
    sample = None
    for i, e in enumerate(fam_iter(fam, params, keep)):
        if i % nsh != idx:
            continue
        before = st["evaluations"]
        judge(backend, e, st, vs, quick)
        if sample is None and i >= 7 and st["evaluations"] > before:
            sample = {"translator": bname, "family": fam, "index": i, "expr": str(e),
                      "evaluations": st["evaluations"] - before}
    st["outcomes"] = set(itertools.islice(sorted(st["outcomes"]), 512))
    return {"st": st, "vs": vs, "sample": sample, "accepted": sorted(acc), "rejected": sorted(set(rej) - set(acc))}


def standard_plan(name, quick, wide, data, ptr_widths, maxw, byte_orders, quick_d2_widths=(1, 2)):
    """The common plan of C05/C06/C07a: (backend, big_endian, family, params, shards)."""
    p = []
    for w in SMALL:
        p.append((name, False, "d1", (SMALL, w), 4))
    if quick:
        for w in quick_d2_widths:
            p += [(name, False, "d2", (tuple(quick_d2_widths), w, "one", 2, "1c", k, 4), 1) for k in range(4)]
    else:
        for w in (1, 2, 3):
            p += [(name, False, "d2", ((1, 2, 3), w, "core", 2, "3c", k, 32), 1) for k in range(32)]
        p += [(name, False, "d2", (SMALL, 4, "core", 1, "3c", k, 32), 1) for k in range(32)]
    for w in wide:
        p.append((name, False, "wide", (w, maxw, not quick), 2 if quick else 8))
    for be in byte_orders:
        p.append((name, be, "mem", (tuple(ptr_widths), tuple(data)), 8 if quick else 16))
    # history families: ONE translator instance across many expressions (the bulk families above use a fresh
    # translator per expression).  hpairs: ordered pairs differing in a hash-collision boundary constant;
    # hseq: a whole family translated in order by one instance (more than the 1000 entries of its bounded cache).
    for w in (61, 62, 63, 64, 128):
        if w <= maxw and (not quick or w in (61, 64, 128)):
            p.append((name, False, "hpairs", (w,), 1 if quick else 4))
    for w in ((2, 3) if quick else SMALL):
        p.append((name, False, "hseq", ("d1", (SMALL, w)), 1))
    for w in wide:
        if not quick or w >= 61:
            p.append((name, False, "hseq", ("wide", (w, maxw, not quick)), 1))
    return p


def run(ctx, make_backend, plan):
    """plan: list of (backend name, big_endian, family, params, nshards)."""
    shards = []
    for bname, be, fam, params, nsh in plan:
        for i in range(nsh):
            shards.append((make_backend, bname, be, fam, params, i, nsh, ctx.quick))
    # Quick tier: in-process, no pool.  On the shared, oversubscribed machine (load 80-120 on 16 cores) forking the
    # 16-worker pool and running the shards in it was measured 2-4x SLOWER than running them in the parent
    # (21 s serial, 29 s with 2 workers, 44-85 s with 16) - the session gets a fixed CPU share and more
    # processes only add fork/switch overhead.  The thorough tier (minutes of CPU) uses the pool.
    if ctx.quick:
        res = [shard_worker(a) for a in shards]
    else:
        res = ctx.pmap(shard_worker, shards)
    st = new_stats()
    per_family = {}
    samples = []
    accepted, rejected = set(), set()
    for sh, r in zip(shards, res):
        ctx.add_violations(r["vs"])
        merge_stats(st, r["st"])
        k = "%s%s:%s:%r" % (sh[1], ":be" if sh[2] else "", sh[3], sh[4])
        per_family[k] = per_family.get(k, 0) + r["st"]["evaluations"]
        if r["sample"] and len(samples) < 8 and all(s["family"] != r["sample"]["family"] or
                                                    s["translator"] != r["sample"]["translator"] for s in samples):
            samples.append(r["sample"])
        accepted.update(r["accepted"])
        rejected.update(r["rejected"])
    cov = {k: v for k, v in st.items() if not isinstance(v, set)}
    cov["distinct_outcomes"] = len(st["outcomes"])
    cov["distinct_nontrivial"] = st["nontrivial"]
    cov["per_family_evaluations"] = per_family
    cov["node_kinds_accepted"] = sorted(accepted)
    cov["node_kinds_not_accepted"] = sorted(rejected)
    cov["accepted_kinds_never_evaluated_at_root"] = sorted(k for k in accepted if not st["per_op_evals"].get(k))
    cov["violations_by_signature"] = cov.pop("sig_counts")
    cov["samples"] = samples
    cov["exhaustive"] = True
    return cov


def replay(case, make_backend):
    import miasm.expression.expression as m
    ns = {k: getattr(m, k) for k in dir(m) if k.startswith("Expr") or k == "LocKey"}
    e = eval(case["expr"], ns)
    backend = make_backend(case["tr"], bool(case["be"]))
    ids = refsem.free_ids(e)
    st = new_stats()
    vs = []
    if not case["vals"] and ids:
        # recorded translation-time failure: the case is the translation itself
        try:
            backend.translate(e)
            return []
        except NotImplementedError:
            return []
        except Exception:
            pass
    vals = [case["vals"][str(i)] for i in ids] if case["vals"] else []
    quick = bool(case.get("quick", True))
    if case.get("hist"):
        hc = case["hist"]
        params = _totuple(hc["params"])
        keep = set(probe(backend)[0])
        for i, (c, seq, check_all) in enumerate(hist_sequences(hc["fam"], params, keep)):
            if i == hc["index"]:
                seq = seq[:hc["upto"] + 1]
                if repr(seq[-1]) != case["expr"]:
                    raise AssertionError("history does not regenerate the recorded expression")
                judge_history(backend, seq, st, vs, quick, {k: hc[k] for k in ("fam", "params", "index")},
                              only=(vals, case["mem"]))
                break
        return vs
    judge(backend, e, st, vs, quick, only=(vals, case["mem"]))
    return vs


def _totuple(x):
    if isinstance(x, list):
        return tuple(_totuple(i) for i in x)
    return x
