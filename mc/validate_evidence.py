"""python3-vt -m mc.validate_evidence : validate every evidence/*.json against the schema."""
import glob, json, sys, os
import jsonschema
ROOT = os.path.dirname(os.path.dirname(os.path.abspath(__file__)))
schema = json.load(open("/root/.vp/EVIDENCE.schema.json"))
bad = 0
for p in sorted(glob.glob(os.path.join(ROOT, "evidence", "*.json"))):
    try:
        jsonschema.validate(json.load(open(p)), schema)
    except Exception as e:
        bad += 1
        print("INVALID", p, str(e)[:300])
print("evidence files valid" if not bad else "%d invalid" % bad)
sys.exit(1 if bad else 0)
