"""A short fixed list of x86_32 cdecl functions, assembled with miasm's own assembler, disassembled and lifted
with the real x86 lifter (Machine("x86_32").lifter_model_call), for the IR-graph checks C36 / C40.

    FUNCS            [(name, assembly text)]
    lift(i)          -> object with ircfg, lifter, loc_db, head (LocKey), regs (miasm.arch.x86.regs), has_loop
    states(f)        -> iterator of (register valuation, memory, text) : arguments x stack pointer lattice;
                        every register the lifter knows has a value, [ESP] holds the return address

Arguments are read at [ESP+4] and [ESP+8]; the result is returned in EAX.  The second stack pointer value makes
the second argument live at address 0, so that a pointer argument in {0,1,2,0xFFFFFFFF} equals / overlaps it.
"""
import itertools

BASE = 0x401000
RETADDR = 0xDEAD0000
FUEL = 40
ARGS = [0, 1, 2, 0xFFFFFFFF]
ESPS = [0x2000, 0xFFFFFFF8]

FUNCS = [
    ("leaf_add", """
main:
    MOV   EAX, DWORD PTR [ESP+4]
    ADD   EAX, DWORD PTR [ESP+8]
    RET
"""),
    ("frame_add", """
main:
    PUSH  EBP
    MOV   EBP, ESP
    MOV   EAX, DWORD PTR [EBP+8]
    ADD   EAX, DWORD PTR [EBP+0xC]
    POP   EBP
    RET
"""),
    ("if_else", """
main:
    PUSH  EBP
    MOV   EBP, ESP
    MOV   EAX, DWORD PTR [EBP+8]
    CMP   EAX, 1
    JBE   small
    ADD   EAX, 2
    JMP   end
small:
    MOV   EAX, DWORD PTR [EBP+0xC]
    INC   EAX
end:
    POP   EBP
    RET
"""),
    ("counted_loop", """
main:
    MOV   ECX, DWORD PTR [ESP+4]
    AND   ECX, 3
    XOR   EAX, EAX
loop:
    TEST  ECX, ECX
    JZ    end
    ADD   EAX, DWORD PTR [ESP+8]
    DEC   ECX
    JMP   loop
end:
    RET
"""),
    ("stack_locals", """
main:
    PUSH  EBP
    MOV   EBP, ESP
    SUB   ESP, 8
    MOV   EAX, DWORD PTR [EBP+8]
    MOV   DWORD PTR [EBP-4], EAX
    MOV   EAX, DWORD PTR [EBP+0xC]
    MOV   DWORD PTR [EBP-8], EAX
    MOV   EAX, DWORD PTR [EBP-4]
    SUB   EAX, DWORD PTR [EBP-8]
    MOV   ESP, EBP
    POP   EBP
    RET
"""),
    ("swap_loop", """
main:
    MOV   EAX, DWORD PTR [ESP+4]
    MOV   EDX, DWORD PTR [ESP+8]
    MOV   ECX, 3
again:
    XCHG  EAX, EDX
    DEC   ECX
    JNZ   again
    SUB   EAX, EDX
    RET
"""),
    ("store_through_pointer", """
main:
    MOV   EDX, DWORD PTR [ESP+4]
    MOV   ECX, DWORD PTR [ESP+8]
    INC   ECX
    MOV   DWORD PTR [EDX], ECX
    MOV   EAX, DWORD PTR [ESP+8]
    RET
"""),
    ("max_with_local", """
main:
    PUSH  EBP
    MOV   EBP, ESP
    PUSH  ECX
    MOV   EAX, DWORD PTR [EBP+8]
    MOV   DWORD PTR [EBP-4], EAX
    MOV   ECX, DWORD PTR [EBP+0xC]
    CMP   ECX, EAX
    JBE   keep
    MOV   DWORD PTR [EBP-4], ECX
keep:
    MOV   EAX, DWORD PTR [EBP-4]
    MOV   ESP, EBP
    POP   EBP
    RET
"""),
    ("indirect_call", """
main:
    MOV   ECX, DWORD PTR [ESP+8]
    PUSH  DWORD PTR [ESP+4]
    CALL  ECX
    ADD   ESP, 4
    INC   EAX
    RET
"""),
]


class Lifted(object):
    pass


_bytes_cache = {}


def assemble(idx):
    if idx in _bytes_cache:
        return _bytes_cache[idx]
    from miasm.arch.x86.arch import mn_x86
    from miasm.core import parse_asm, asmblock
    from miasm.core.locationdb import LocationDB
    from miasm.loader.strpatchwork import StrPatchwork
    import logging
    logging.getLogger("x86_arch").setLevel(logging.ERROR)      # "dynamic dst" of CALL ECX is expected
    loc_db = LocationDB()
    asmcfg = parse_asm.parse_txt(mn_x86, 32, FUNCS[idx][1], loc_db)
    loc_db.set_location_offset(loc_db.get_name_location("main"), BASE)
    from miasm.core.interval import interval
    patches = asmblock.asm_resolve_final(mn_x86, asmcfg, dst_interval=interval([(BASE, BASE + 0x1000)]))
    sp = StrPatchwork()
    for off, raw in patches.items():
        sp[off - BASE] = raw
    _bytes_cache[idx] = bytes(sp)
    return _bytes_cache[idx]


def lift(idx, lifter_factory=None):
    """Fresh LocationDB / lifter / IRCFG for function @idx.  lifter_factory(cls, *ctor_args) may build a subclass."""
    from miasm.analysis.machine import Machine
    from miasm.core.locationdb import LocationDB
    from miasm.core.bin_stream import bin_stream_str
    import logging
    raw = assemble(idx)
    machine = Machine("x86_32")
    logging.getLogger("x86_arch").setLevel(logging.ERROR)      # "dynamic dst" of CALL ECX is expected
    loc_db = LocationDB()
    mdis = machine.dis_engine(bin_stream_str(raw, base_address=BASE), loc_db=loc_db)
    mdis.follow_call = False
    asmcfg = mdis.dis_multiblock(BASE)
    if lifter_factory is None:
        lifter = machine.lifter_model_call(loc_db)
    else:
        lifter = lifter_factory(machine.lifter_model_call, loc_db)
    ircfg = lifter.new_ircfg_from_asmcfg(asmcfg)
    out = Lifted()
    out.ircfg, out.lifter, out.loc_db = ircfg, lifter, loc_db
    out.head = loc_db.get_offset_location(BASE)
    out.regs = lifter.arch.regs
    out.n_blocks = len(ircfg.blocks)
    out.has_loop = _has_loop(ircfg, out.head)
    out.asmcfg = asmcfg
    return out


def _has_loop(ircfg, head):
    color = {}

    def dfs(u):
        color[u] = 1
        for v in ircfg.successors(u):
            c = color.get(v, 0)
            if c == 1:
                return True
            if c == 0 and dfs(v):
                return True
        color[u] = 2
        return False
    return dfs(head)


def all_ids(ircfg):
    ids = set()
    for blk in ircfg.blocks.values():
        for ab in blk:
            for dst, src in ab.items():
                for e in (dst, src):
                    for x in e.get_r(mem_read=True):
                        if x.is_id():
                            ids.add(x)
                    if e.is_id():
                        ids.add(e)
    return ids


def le32(addr, val):
    return dict(((addr + i) & 0xFFFFFFFF, (val >> (8 * i)) & 0xFF) for i in range(4))


def states(f, extra_ids=()):
    R = f.regs
    base = {}
    for i, x in enumerate(sorted(set(R.all_regs_ids) | all_ids(f.ircfg) | set(extra_ids), key=lambda e: (e.name, e.size))):
        base[x] = 0
    base.update({R.EAX: 0x11, R.EBX: 0x22, R.ECX: 0x33, R.EDX: 0x44, R.ESI: 0x55, R.EDI: 0x66, R.EBP: 0x7000})
    for a1, a2, esp in itertools.product(ARGS, ARGS, ESPS):
        regs = dict(base)
        regs[R.ESP] = esp
        mem = {}
        mem.update(le32(esp, RETADDR))
        mem.update(le32(esp + 4, a1))
        mem.update(le32(esp + 8, a2))
        yield regs, mem, "{arg1=%#x,arg2=%#x,ESP=%#x}" % (a1, a2, esp)
