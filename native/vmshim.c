/* Typed emulated memory accesses on a real VmMngr object, for check C24.
 * Compiled by the harness against the repository's own headers (vm_mngr.h / vm_mngr_py.h) and linked
 * against the freshly rebuilt VmMngr extension, so layout and code are those of the working tree. */
#include <Python.h>
#include <stdint.h>
#include "queue.h"
#include "compat_py23.h"
#include "bn.h"
#include "vm_mngr.h"
#include "vm_mngr_py.h"

static PyObject* shim_read(PyObject* self, PyObject* args)
{
	PyObject* vm; unsigned int size; unsigned long long addr; unsigned long long ret = 0;
	if (!PyArg_ParseTuple(args, "OIK", &vm, &size, &addr)) return NULL;
	vm_mngr_t* m = &((VmMngr*)vm)->vm_mngr;
	switch (size) {
	case 8: ret = vm_MEM_LOOKUP_08(m, addr); break;
	case 16: ret = vm_MEM_LOOKUP_16(m, addr); break;
	case 32: ret = vm_MEM_LOOKUP_32(m, addr); break;
	case 64: ret = vm_MEM_LOOKUP_64(m, addr); break;
	default: PyErr_SetString(PyExc_ValueError, "size"); return NULL;
	}
	return PyLong_FromUnsignedLongLong(ret);
}

static PyObject* shim_write(PyObject* self, PyObject* args)
{
	PyObject* vm; unsigned int size; unsigned long long addr; unsigned long long val;
	if (!PyArg_ParseTuple(args, "OIKK", &vm, &size, &addr, &val)) return NULL;
	vm_mngr_t* m = &((VmMngr*)vm)->vm_mngr;
	switch (size) {
	case 8: vm_MEM_WRITE_08(m, addr, (unsigned char)val); break;
	case 16: vm_MEM_WRITE_16(m, addr, (unsigned short)val); break;
	case 32: vm_MEM_WRITE_32(m, addr, (unsigned int)val); break;
	case 64: vm_MEM_WRITE_64(m, addr, val); break;
	default: PyErr_SetString(PyExc_ValueError, "size"); return NULL;
	}
	Py_RETURN_NONE;
}

static PyMethodDef methods[] = {
	{"read", shim_read, METH_VARARGS, "emulated typed read: read(vm, bits, addr)"},
	{"write", shim_write, METH_VARARGS, "emulated typed write: write(vm, bits, addr, value)"},
	{NULL, NULL, 0, NULL}
};
static struct PyModuleDef moddef = {PyModuleDef_HEAD_INIT, "vmshim", NULL, -1, methods};
PyMODINIT_FUNC PyInit_vmshim(void) { return PyModule_Create(&moddef); }
