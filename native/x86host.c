/* x86host.c - execute ONE x86-64 instruction natively from a given register/flag/memory state (check C18).
 *
 * Built by checks/c18_x86_vs_host.py into a per-run temp dir:  gcc -O1 -o x86host x86host.c
 * Runs as a helper process (one per worker) so that nothing it does can crash the checking process.
 *
 * Fixed low mappings (MAP_FIXED_NOREPLACE), all reachable with sign-extended 32-bit absolute addressing so that
 * the trampolines need no free register:
 *     CODE  0x20000  one RWX page : <instruction bytes> ; jmp *[STATE+0x90]
 *     DATA  0x30000  one RW  page : the scratch window is DATA+0x800 .. DATA+0x900, the rest must stay zero
 *     STATE 0x40000  one RW  page : register block (layout below)
 *
 * Protocol on stdin/stdout (little endian, packed):
 *     batch   : uint32 n ; n * request          ->   n * response   (flushed once per batch; n == 0 terminates)
 *     request : u8 code_len; u8 code[15]; u64 rflags; u64 gpr[16]; u8 xmm[256]; u64 mm[8]; u8 win[256]
 *     response: u32 outcome (0 = completed, else signal number); u32 dirty (bytes of DATA changed outside the window);
 *               u64 fault_rip; u64 rflags; u64 gpr[16]; u8 xmm[256]; u64 mm[8]; u8 win[256]
 * MM0..MM7 are loaded after the XMM registers and stored back before EMMS returns the x87 unit to the C code.
 * gpr order is the hardware encoding order: RAX RCX RDX RBX RSP RBP RSI RDI R8..R15.
 * Only CF PF AF ZF SF OF DF of the requested rflags are loaded; everything else is the host's own value.
 * On a fault the registers reported are those of the signal context (precise fault state).
 */
#define _GNU_SOURCE
#include <setjmp.h>
#include <signal.h>
#include <stdint.h>
#include <stdio.h>
#include <stdlib.h>
#include <string.h>
#include <sys/mman.h>
#include <ucontext.h>
#include <unistd.h>

#ifndef MAP_FIXED_NOREPLACE
#define MAP_FIXED_NOREPLACE 0x100000
#endif

#define CODE  0x20000UL
#define DATA  0x30000UL
#define STATE 0x40000UL
#define PAGE  0x1000UL
#define WIN_OFF 0x800
#define WIN_LEN 0x100
#define FLAG_MASK 0xCD5UL           /* CF PF AF ZF SF DF OF */

/* STATE layout */
#define S_GPR    0x000              /* 16 * 8 */
#define S_FLAGS  0x080
#define S_HOSTSP 0x088
#define S_RET    0x090              /* address of x86host_exit */
#define S_ENTRY  0x098              /* address jumped to (CODE) */
#define S_MXCSR  0x0A0
#define S_XMM    0x100              /* 16 * 16 */
#define S_MM     0x200              /* 8 * 8 */

struct __attribute__((packed)) request {
    uint8_t code_len; uint8_t code[15];
    uint64_t rflags; uint64_t gpr[16]; uint8_t xmm[256]; uint64_t mm[8]; uint8_t win[WIN_LEN];
};
struct __attribute__((packed)) response {
    uint32_t outcome; uint32_t dirty; uint64_t fault_rip;
    uint64_t rflags; uint64_t gpr[16]; uint8_t xmm[256]; uint64_t mm[8]; uint8_t win[WIN_LEN];
};

void x86host_enter(void);
void x86host_exit(void);

#define STR2(x) #x
#define STR(x) STR2(x)
#define A(off) STR(0x40000 + off)

__asm__(
    ".text\n"
    ".globl x86host_enter\n"
    "x86host_enter:\n"
    "  pushq %rbx\n  pushq %rbp\n  pushq %r12\n  pushq %r13\n  pushq %r14\n  pushq %r15\n"
    "  movq %rsp, " A(0x088) "\n"
    "  ldmxcsr " A(0x0A0) "\n"
    "  movdqu " A(0x100) ", %xmm0\n  movdqu " A(0x110) ", %xmm1\n  movdqu " A(0x120) ", %xmm2\n  movdqu " A(0x130) ", %xmm3\n"
    "  movdqu " A(0x140) ", %xmm4\n  movdqu " A(0x150) ", %xmm5\n  movdqu " A(0x160) ", %xmm6\n  movdqu " A(0x170) ", %xmm7\n"
    "  movdqu " A(0x180) ", %xmm8\n  movdqu " A(0x190) ", %xmm9\n  movdqu " A(0x1A0) ", %xmm10\n  movdqu " A(0x1B0) ", %xmm11\n"
    "  movdqu " A(0x1C0) ", %xmm12\n  movdqu " A(0x1D0) ", %xmm13\n  movdqu " A(0x1E0) ", %xmm14\n  movdqu " A(0x1F0) ", %xmm15\n"
    "  movq " A(0x200) ", %mm0\n  movq " A(0x208) ", %mm1\n  movq " A(0x210) ", %mm2\n  movq " A(0x218) ", %mm3\n"
    "  movq " A(0x220) ", %mm4\n  movq " A(0x228) ", %mm5\n  movq " A(0x230) ", %mm6\n  movq " A(0x238) ", %mm7\n"
    "  pushq " A(0x080) "\n"
    "  popfq\n"
    "  movq " A(0x08) ", %rcx\n  movq " A(0x10) ", %rdx\n  movq " A(0x18) ", %rbx\n"
    "  movq " A(0x28) ", %rbp\n  movq " A(0x30) ", %rsi\n  movq " A(0x38) ", %rdi\n"
    "  movq " A(0x40) ", %r8\n  movq " A(0x48) ", %r9\n  movq " A(0x50) ", %r10\n  movq " A(0x58) ", %r11\n"
    "  movq " A(0x60) ", %r12\n  movq " A(0x68) ", %r13\n  movq " A(0x70) ", %r14\n  movq " A(0x78) ", %r15\n"
    "  movq " A(0x20) ", %rsp\n"
    "  movq " A(0x00) ", %rax\n"
    "  jmp *" A(0x098) "\n"
    ".globl x86host_exit\n"
    "x86host_exit:\n"
    "  movq %rax, " A(0x00) "\n"
    "  movq %rsp, " A(0x20) "\n"
    "  movq " A(0x088) ", %rsp\n"
    "  pushfq\n"
    "  popq " A(0x080) "\n"
    "  cld\n"
    "  movq %rcx, " A(0x08) "\n  movq %rdx, " A(0x10) "\n  movq %rbx, " A(0x18) "\n"
    "  movq %rbp, " A(0x28) "\n  movq %rsi, " A(0x30) "\n  movq %rdi, " A(0x38) "\n"
    "  movq %r8, " A(0x40) "\n  movq %r9, " A(0x48) "\n  movq %r10, " A(0x50) "\n  movq %r11, " A(0x58) "\n"
    "  movq %r12, " A(0x60) "\n  movq %r13, " A(0x68) "\n  movq %r14, " A(0x70) "\n  movq %r15, " A(0x78) "\n"
    "  movdqu %xmm0, " A(0x100) "\n  movdqu %xmm1, " A(0x110) "\n  movdqu %xmm2, " A(0x120) "\n  movdqu %xmm3, " A(0x130) "\n"
    "  movdqu %xmm4, " A(0x140) "\n  movdqu %xmm5, " A(0x150) "\n  movdqu %xmm6, " A(0x160) "\n  movdqu %xmm7, " A(0x170) "\n"
    "  movdqu %xmm8, " A(0x180) "\n  movdqu %xmm9, " A(0x190) "\n  movdqu %xmm10, " A(0x1A0) "\n  movdqu %xmm11, " A(0x1B0) "\n"
    "  movdqu %xmm12, " A(0x1C0) "\n  movdqu %xmm13, " A(0x1D0) "\n  movdqu %xmm14, " A(0x1E0) "\n  movdqu %xmm15, " A(0x1F0) "\n"
    "  movq %mm0, " A(0x200) "\n  movq %mm1, " A(0x208) "\n  movq %mm2, " A(0x210) "\n  movq %mm3, " A(0x218) "\n"
    "  movq %mm4, " A(0x220) "\n  movq %mm5, " A(0x228) "\n  movq %mm6, " A(0x230) "\n  movq %mm7, " A(0x238) "\n"
    "  emms\n"
    "  popq %r15\n  popq %r14\n  popq %r13\n  popq %r12\n  popq %rbp\n  popq %rbx\n"
    "  ret\n"
);

static sigjmp_buf jb;
static volatile int in_guest;
static volatile uint64_t fault_rip;
static uint64_t fault_gpr[16], fault_flags;
static const int greg_map[16] = { REG_RAX, REG_RCX, REG_RDX, REG_RBX, REG_RSP, REG_RBP, REG_RSI, REG_RDI,
                                  REG_R8, REG_R9, REG_R10, REG_R11, REG_R12, REG_R13, REG_R14, REG_R15 };

static void on_signal(int sig, siginfo_t *si, void *uc_) {
    ucontext_t *uc = (ucontext_t *)uc_;
    (void)si;
    if (!in_guest) {
        static const char msg[] = "x86host: signal outside guest code\n";
        if (write(2, msg, sizeof msg - 1)) {}
        _exit(70);
    }
    in_guest = 0;
    for (int i = 0; i < 16; i++) fault_gpr[i] = (uint64_t)uc->uc_mcontext.gregs[greg_map[i]];
    fault_flags = (uint64_t)uc->uc_mcontext.gregs[REG_EFL];
    fault_rip = (uint64_t)uc->uc_mcontext.gregs[REG_RIP];
    siglongjmp(jb, sig);
}

static void *map_fixed(unsigned long addr, int prot) {
    void *p = mmap((void *)addr, PAGE, prot, MAP_PRIVATE | MAP_ANONYMOUS | MAP_FIXED_NOREPLACE, -1, 0);
    if (p == MAP_FAILED || p != (void *)addr) {
        fprintf(stderr, "x86host: cannot map %#lx\n", addr);
        exit(71);
    }
    return p;
}

static int read_full(void *buf, size_t n) { return fread(buf, 1, n, stdin) == n; }

int main(void) {
    uint8_t *code = map_fixed(CODE, PROT_READ | PROT_WRITE | PROT_EXEC);
    uint8_t *data = map_fixed(DATA, PROT_READ | PROT_WRITE);
    uint8_t *st = map_fixed(STATE, PROT_READ | PROT_WRITE);
    uint64_t host_flags;
    static uint8_t xmm_at_fault[256];

    stack_t ss;
    ss.ss_sp = malloc(1 << 16); ss.ss_size = 1 << 16; ss.ss_flags = 0;
    if (!ss.ss_sp || sigaltstack(&ss, NULL)) { perror("sigaltstack"); return 72; }
    struct sigaction sa;
    memset(&sa, 0, sizeof sa);
    sa.sa_sigaction = on_signal;
    sa.sa_flags = SA_SIGINFO | SA_ONSTACK | SA_NODEFER;
    sigemptyset(&sa.sa_mask);
    sigaction(SIGFPE, &sa, NULL); sigaction(SIGSEGV, &sa, NULL); sigaction(SIGILL, &sa, NULL);
    sigaction(SIGTRAP, &sa, NULL); sigaction(SIGBUS, &sa, NULL);

    __asm__ volatile("pushfq\n popq %0" : "=r"(host_flags));
    host_flags &= ~FLAG_MASK;
    *(uint64_t *)(st + S_RET) = (uint64_t)(uintptr_t)&x86host_exit;
    *(uint64_t *)(st + S_ENTRY) = CODE;
    *(uint32_t *)(st + S_MXCSR) = 0x1F80;

    static const uint8_t tail[7] = { 0xFF, 0x24, 0x25, 0x90, 0x00, 0x04, 0x00 };   /* jmp *[0x40090] */
    setvbuf(stdout, NULL, _IOFBF, 1 << 20);

    for (;;) {
        uint32_t n;
        if (!read_full(&n, 4) || n == 0) break;
        struct request *rq = malloc((size_t)n * sizeof *rq);
        struct response *rs = calloc(n, sizeof *rs);
        if (!rq || !rs || !read_full(rq, (size_t)n * sizeof *rq)) return 73;
        for (uint32_t k = 0; k < n; k++) {
            struct request *q = &rq[k];
            struct response *r = &rs[k];
            if (q->code_len == 0 || q->code_len > 15) return 74;
            memset(code, 0xCC, 64);
            memcpy(code, q->code, q->code_len);
            memcpy(code + q->code_len, tail, sizeof tail);
            memset(data, 0, PAGE);
            memcpy(data + WIN_OFF, q->win, WIN_LEN);
            memcpy(st + S_GPR, q->gpr, 128);
            memcpy(st + S_XMM, q->xmm, 256);
            memcpy(st + S_MM, q->mm, 64);
            *(uint64_t *)(st + S_FLAGS) = host_flags | (q->rflags & FLAG_MASK);
            int sig = sigsetjmp(jb, 1);
            if (sig == 0) {
                in_guest = 1;
                x86host_enter();
                in_guest = 0;
                r->outcome = 0;
                r->fault_rip = 0;
                r->rflags = *(uint64_t *)(st + S_FLAGS) & FLAG_MASK;
                memcpy(r->gpr, st + S_GPR, 128);
                memcpy(r->xmm, st + S_XMM, 256);
                memcpy(r->mm, st + S_MM, 64);
            } else {
                __asm__ volatile("cld\n emms");
                r->outcome = (uint32_t)sig;
                r->fault_rip = fault_rip;
                r->rflags = fault_flags & FLAG_MASK;
                memcpy(r->gpr, fault_gpr, 128);
                memcpy(r->xmm, xmm_at_fault, 256);          /* not captured: zeros */
            }
            memcpy(r->win, data + WIN_OFF, WIN_LEN);
            uint32_t dirty = 0;
            for (unsigned i = 0; i < PAGE; i++)
                if ((i < WIN_OFF || i >= WIN_OFF + WIN_LEN) && data[i]) dirty++;
            r->dirty = dirty;
        }
        if (fwrite(rs, sizeof *rs, n, stdout) != n) return 75;
        fflush(stdout);
        free(rq); free(rs);
    }
    return 0;
}
