#!/bin/bash
# Run once in /verif after a fresh restore, offline. Everything produced here is a cache:
# every check re-derives what it needs from /repo's current working tree.
cd "$(dirname "$(readlink -f "$0")")" || exit 1
set -e
mkdir -p .cache .deps evidence replays
if ! /venv/bin/python -c "import sys; sys.path.insert(0,'.deps'); import z3" 2>/dev/null; then
  /venv/bin/pip install --no-index --find-links /opt/veriftools/wheels --target .deps z3-solver >/dev/null 2>&1 || \
    echo "setup: z3-solver wheel could not be installed (C05/C06/C39/C41 will report a harness error)"
fi
if [ -f mc/native.py ]; then
  PYTHONHASHSEED=0 /venv/bin/python -m mc.native --prebuild || echo "setup: native prebuild failed (checks rebuild on demand)"
fi
PYTHONHASHSEED=0 /venv/bin/python -m mc.elfcorpus >/dev/null 2>&1 || echo "setup: ELF corpus prebuild failed (C43/C44 rebuild on demand)"
echo "setup done"
