"""tools/install_ext.py <checkout> : (re)build every C extension from <checkout>'s sources (cached by source hash
under /verif/.cache/ext) and install the .so files in place in <checkout>, so that demos and the pinned suite run
against the C code of that tree and not against stale build products."""
import os, shutil, sys
sys.path.insert(0, "/verif")
os.environ["VERIF_REPO"] = os.path.realpath(sys.argv[1])
from mc import native
repo = os.path.realpath(sys.argv[1])
built = native.build(native.ALL, repo)
for name, path in built.items():
    rel, _ = native.EXTENSIONS[name]
    shutil.copy2(path, os.path.join(repo, "miasm", rel + native.EXT))
print("installed %d extensions (sources %s) into %s" % (len(built), native.source_hash(repo), repo))
