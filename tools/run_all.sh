#!/bin/bash
# [IDS="C01 C02"] tools/run_all.sh [tier] : run every registered check on /repo, refresh evidence, report exit codes
cd /verif
tier=${1:-quick}
for id in ${IDS:-$(grep -v '^#' ready.txt)}; do
  s=$(date +%s)
  out=$(timeout 7200 ./check $id --tier $tier 2>&1); rc=$?
  e=$(date +%s)
  echo "$id rc=$rc $((e-s))s $(echo "$out" | grep -c VIOLATION) violations $(echo "$out" | grep -c KNOWN-FINDING) known"
done
python3-vt -m mc.validate_evidence
