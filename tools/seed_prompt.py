"""tools/seed_prompt.py <ID> : write PROPERTY.json into the breaker worktree and print the agent prompt."""
import json, sys
pid = sys.argv[1]
for l in open('/verif/properties.jsonl'):
    p = json.loads(l)
    if p['id'] == pid:
        break
d = "/tmp/seed_%s" % pid
keep = {k: p[k] for k in ("id", "title", "statement", "quantifier", "why_tests_cant", "anchors")}
json.dump(keep, open(d + "/PROPERTY.json", "w"), indent=1)
avoid = ""
if len(sys.argv) > 2 and sys.argv[2] == "--second":
    import glob
    prev = []
    for mf in sorted(glob.glob("/verif/seeded/%s*/meta.json" % pid)):
        prev.append(json.load(open(mf)).get("summary", ""))
    if prev:
        avoid = ("\n\nThe following change(s) have already been studied for this property; produce a DIFFERENT one, in a different "
                 "function (preferably a different file or mechanism among the anchored ones), needing a different kind of input or "
                 "history to manifest:\n" + "\n".join("- " + x for x in prev))
print("""You are testing how robust a semantic property of the miasm reverse-engineering framework is against realistic regressions. You work ONLY inside the scratch git worktree {d} (a checkout of the repository; run python as /venv/bin/python with PYTHONPATH={d} so that `import miasm` resolves to the worktree). Do NOT read or use anything under /verif or /repo, and do not look for existing verification machinery: your work must be independent of it.

The property is described in {d}/PROPERTY.json (statement, quantifier, anchored files/mechanisms). Read it and the anchored source files.

Task: produce ONE realistic change to the repository source (a small edit a developer could plausibly make during a refactoring, optimisation or bug fix: changed comparison or bound, dropped mask, forgotten update of one of two mirrored tables, cursor advanced before reserving, hoisted local state, swapped order of two steps, an early return, a cache that is not invalidated...) that BREAKS the property while the code still imports/compiles and the repository's pinned test suite still passes. The change must need something specific to manifest — a particular multi-step sequence of operations, an unusual or boundary input, a particular configuration, or two cooperating sites that each look fine alone — not something ordinary use would expose at once. Do not add dead code, comments announcing the bug, or test-only switches; do not touch tests.{avoid}

Deliverables (all inside {d}):
1. `patch.diff` = `git diff` of your change (source files only; make sure `git apply` works on a clean checkout of HEAD).
2. `demo.py` = a small standalone program (run as `cd {d} && PYTHONPATH={d} /venv/bin/python demo.py`) that exits 0 on the unmodified code and exits non-zero (with a short message showing the violated expectation) on the modified code. It must test the property as stated, with an oracle that does not depend on your knowledge of the change.
3. `meta.json` = {{"property": "{pid}", "summary": one sentence, "needs_to_manifest": what specific sequence/input/configuration is required, "files_changed": [...]}}.

Verify yourself before finishing: (a) with the change applied, the pinned suite still passes: `cd {d} && /venv/bin/python -m pytest -q -p no:cacheprovider --timeout=900 --continue-on-collection-errors 2>&1 | tail -1` must report `280 passed` (the hundreds of collection *errors* are normal and also present without the change); (b) demo.py exits non-zero with the change; (c) save the change with `git diff > patch.diff`, revert with `git checkout -- miasm` (do NOT use `git stash`: the stash is shared with other worktrees), demo.py exits 0, re-apply with `git apply patch.diff`. Leave the worktree with the change applied and the three files present. Reply with the summary, the diff, and the outputs of (a)-(c).""".format(d=d, pid=pid, avoid=avoid))
