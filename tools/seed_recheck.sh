#!/bin/bash
# tools/seed_recheck.sh <seed dir name under /verif/seeded> : apply the archived patch to a fresh worktree of /repo HEAD and run
# the property's registered quick check on it; prints one line "<name> <applies?> <n VIOLATION lines> <harness lines>"
name=$1; id=${name%%_*}; d=/tmp/rechk_$name
git -C /repo worktree remove --force $d 2>/dev/null; rm -rf $d $d.verif_out
git -C /repo worktree add -q --detach $d HEAD
if ! git -C $d apply /verif/seeded/$name/patch.diff 2>/dev/null; then echo "$name PATCH-DOES-NOT-APPLY"; git -C /repo worktree remove --force $d; exit 0; fi
out=$(cd /verif && VERIF_REPO=$d timeout 1500 ./check $id --tier quick 2>&1)
echo "$name applies violations=$(echo "$out" | grep -c '^VIOLATION') harness=$(echo "$out" | grep -c '^HARNESS')"
git -C /repo worktree remove --force $d; rm -rf $d.verif_out
