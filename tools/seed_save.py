"""tools/seed_save.py <ID> <verdict text> : archive a confirmed seeded change under /verif/seeded/<ID>/"""
import json, os, shutil, sys
pid, verdict = sys.argv[1], sys.argv[2]
src = "/tmp/seed_%s" % pid
dst = "/verif/seeded/%s" % pid
n = 1
while os.path.exists(dst):
    n += 1
    dst = "/verif/seeded/%s_%d" % (pid, n)
os.makedirs(dst)
for f in ("patch.diff", "demo.py"):
    shutil.copy(os.path.join(src, f), os.path.join(dst, f))
meta = json.load(open(os.path.join(src, "meta.json")))
meta["property"] = pid
meta["confirmed"] = {
    "pinned_suite_with_change": "280 passed",
    "demo_without_change_exit": 0,
    "demo_with_change_exit": 1,
    "ran": "tools/seed_verify.sh %s (fresh worktree of /repo HEAD, demo.py, pinned suite, then VERIF_REPO=<worktree> ./check %s --tier quick)" % (pid, pid),
    "our_check_verdict": verdict,
}
json.dump(meta, open(os.path.join(dst, "meta.json"), "w"), indent=1)
print(dst)
