#!/bin/bash
# tools/seed_verify.sh <ID> <patch> <demo cmd...> : confirm a seeded change (tests still pass; demo fails with, passes without) and run our checks
# usage: seed_verify.sh C26 [tier]   (takes patch.diff and demo.py from /tmp/seed_<ID>)
id=$1; tier=${2:-quick}; patch=/tmp/seed_$id/patch.diff
d=/tmp/seedv_$id
git -C /repo worktree remove --force $d 2>/dev/null; rm -rf $d $d.verif_out
git -C /repo worktree add -q --detach $d HEAD
(cd /repo && find miasm -name "*.so" | while read f; do cp $f $d/$f; done)
/venv/bin/python /verif/tools/install_ext.py $d >/dev/null
cd $d
export TMPDIR=$(mktemp -d /tmp/seedv_tmp_XXXXXX)
cp /tmp/seed_$id/demo.py $d/demo.py
demo="PYTHONPATH=$d /venv/bin/python $d/demo.py"
echo "== demo WITHOUT change"; (eval "$demo") > /tmp/seedv_$id.without.log 2>&1; echo "exit=$?"
git apply $patch || { echo "PATCH DOES NOT APPLY"; exit 3; }
/venv/bin/python /verif/tools/install_ext.py $d >/dev/null
echo "== demo WITH change"; (eval "$demo") > /tmp/seedv_$id.with.log 2>&1; echo "exit=$?"
echo "== pinned suite WITH change"; /venv/bin/python -m pytest -q -p no:cacheprovider --timeout=900 --continue-on-collection-errors 2>&1 | tail -1
echo "== our check ($tier) WITH change"
cd /verif && VERIF_REPO=$d timeout 1800 ./check $id --tier $tier 2>&1 | grep -E "^VIOLATION|tier=|HARNESS" | cut -c1-300 | head -8
rm -rf $TMPDIR
