#!/bin/bash
# tools/seed_verify_many.sh ID... : run tools/seed_verify.sh for several seeds, 4 at a time; summaries in /tmp/logs/seedv_<ID>.sum
mkdir -p /tmp/logs
printf "%s\n" "$@" | xargs -P 4 -I{} sh -c 'cd /verif && ./tools/seed_verify.sh {} 2>&1 | grep -vE "^KNOWN" | grep -E "exit=|passed|failed|VIOLATION|tier=|APPLY|HARNESS" | cut -c1-200 | head -6 > /tmp/logs/seedv_{}.sum'
for i in "$@"; do echo "######## $i"; cat /tmp/logs/seedv_$i.sum; done
