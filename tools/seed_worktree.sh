#!/bin/bash
# tools/seed_worktree.sh <ID>  : scratch worktree of /repo HEAD for a breaker agent, with the built extensions copied
set -e
id=$1
d=/tmp/seed_$id
git -C /repo worktree remove --force $d 2>/dev/null || true
rm -rf $d $d.verif_out
git -C /repo worktree add -q --detach $d HEAD
(cd /repo && find miasm -name "*.so" | while read f; do cp $f $d/$f; done)
/venv/bin/python /verif/tools/install_ext.py $d >/dev/null
echo $d
