"""dev helper: run C01 lattice and print violations grouped by rule"""
import sys, collections, json
sys.path.insert(0, '/verif')
from mc import simplattice, runner
tier = sys.argv[1] if len(sys.argv) > 1 else "quick"
mode = sys.argv[2] if len(sys.argv) > 2 else "meaning"
ctx = runner.Ctx("C01", tier, 0, 16)
cov = simplattice.run(ctx, mode)
ctx.close()
by = collections.defaultdict(list)
for v in ctx.violations:
    parts = v["sig"].split("|")
    by[parts[1]].append(v)
for rule, vs in sorted(by.items(), key=lambda kv: -len(kv[1])):
    sigs = sorted(set(v["sig"] for v in vs))
    print("=== %s : %d violations, %d sigs" % (rule, len(vs), len(sigs)))
    for v in vs[:4]:
        print("    ", v["what"][:400])
print(json.dumps({k: v for k, v in cov.items() if k in ("evaluations", "judgements_by_status", "rules_never_fired")}, indent=1))
